#!/usr/bin/env python3
"""Confirm an independently written seeded change in its scratch worktree
(suite green + demo fails with the change, demo passes without it), then keep
it under /verif/seeded/<id>/ (patch.diff, demo.py, notes.md, meta.json)."""
import json, os, shutil, subprocess, sys

def sh(cmd, cwd, env=None):
    e = dict(os.environ); e["PYTHONPATH"] = cwd; e["PYTHONDONTWRITEBYTECODE"] = "1"
    if env: e.update(env)
    p = subprocess.run(cmd, shell=True, cwd=cwd, env=e, stdout=subprocess.PIPE, stderr=subprocess.STDOUT, text=True)
    return p.returncode, p.stdout

def main():
    wt, mdir, sid, prop = sys.argv[1:5]
    needs = sys.argv[5] if len(sys.argv) > 5 else ""
    m = os.path.join(wt, "MUTATIONS", mdir)
    sh("git checkout -- mathy_core", wt)
    rc0, out0 = sh(f"/venv/bin/python {m}/demo.py", wt)
    rc, out = sh(f"git apply {m}/patch.diff", wt)
    if rc != 0:
        print("patch does not apply", out); return 1
    rct, outt = sh("/venv/bin/python -m pytest -q -p no:cacheprovider 2>&1 | tail -1", wt)
    rc1, out1 = sh(f"/venv/bin/python {m}/demo.py", wt)
    sh("git checkout -- mathy_core", wt)
    ok = rc0 == 0 and rc1 != 0 and "110 passed" in outt
    print(f"{sid}: clean demo rc={rc0}, mutated demo rc={rc1}, suite: {outt.strip()} -> {'CONFIRMED' if ok else 'REJECTED'}")
    if not ok:
        print(out0[-300:], out1[-300:]); return 1
    d = os.path.join("/verif/seeded", sid)
    os.makedirs(d, exist_ok=True)
    for f in ("patch.diff", "demo.py", "notes.md"):
        if os.path.exists(os.path.join(m, f)):
            shutil.copy(os.path.join(m, f), os.path.join(d, f))
    json.dump({
        "id": sid, "property": prop, "checks": [prop], "expected": "caught",
        "needs_to_manifest": needs,
        "confirmed": {
            "suite_with_change": outt.strip(),
            "demo_on_clean_tree_rc": rc0, "demo_with_change_rc": rc1,
            "demo_with_change_tail": out1.strip().splitlines()[-1][:300] if out1.strip() else "",
            "how": "in a scratch worktree of /repo HEAD: git apply patch.diff; pytest (110 passed); demo.py fails; git checkout; demo.py passes",
        },
        "source": "written by a sub-agent that saw only the property text and its own worktree",
    }, open(os.path.join(d, "meta.json"), "w"), indent=1)
    return 0

sys.exit(main())
