#!/usr/bin/env python3
"""Regenerates MANIFEST.json from one table (kept so that the manifest stays
valid and consistent while checks are added)."""
import json, sys

CLAIMED = {
 "C04": dict(
    technique="deterministic simulation: seeded search-agent episodes (sequences of real rewrites on cloned states); every tree touched is printed, re-parsed by a fresh parser and compared by an exact-rational reference evaluator",
    text="Exploration by deterministic simulation of the 'programs' half of the quantifier (trees reached by any sequence of rewrites) together with the parser-produced start trees of those episodes: the same seeded rewrite episodes as C09, with start texts biased to the broad documented grammar; every tree the episode touches (start, every rewrite result whether or not C09 admits it) must print to text a fresh parser accepts, re-parse to an exactly-rational-equivalent tree (planted solutions and affine roots for equations) with the same variable set. A sample of the reachable population, not an enumeration of kind x kind x side combinations.",
    ref="DESIGN.md 12.7",
    note="Trusted: the harness's exact Fraction evaluator and tolerance rule; sampled points; trees <= 90 nodes. Only trees the episodes reach are judged."),
 "C09": dict(
    technique="deterministic simulation: seeded search-agent episodes (rewrite schedules over a pool of live states) with per-step reference-model oracles, ddmin-minimised replay",
    text="Exploration by deterministic simulation: a simulated search agent expands many live states in seeded order through the real rules (each step on a clone_from_root copy); after every step an exact-rational reference evaluator, an own link audit, a fresh-parser print/re-parse check and a shadow-snapshot isolation check are evaluated. Sampling of the unbounded space of (start, sequence) pairs; a clean batch is evidence, not proof.",
    ref="DESIGN.md 3.3, 5",
    note="Trusted: the harness's exact Fraction evaluator, structure audit and tolerance rule (1e-9/1e-6 x forward-error scale); start expressions limited to the documented generator/grammar families; equations compared at planted solutions, random points and exact affine roots only."),
 "C10": dict(
    technique="deterministic simulation: seeded parser sessions with abort-point sweep (failure injected at every token position) checked against a fresh-parser reference model",
    text="Exploration by deterministic simulation of call histories on one long-lived parser: seeded sessions biased to failing inputs, a systematic abort-point sweep (truncation / poison token at every cursor position, each followed by good parses on the same parser) and marathon sessions (one parser, 800-2500 calls, mostly new texts, many left with open groups). Oracles: per-op wall budget (termination), closed exception set with an own scanner deciding when ValueError is allowed, own link audit of returned trees, and agreement with a fresh parser -- and, for a seeded sample of requests, with a parser in a pristine process (zygote forked before any code under test ran) -- after every failure. Per-string clauses are sampled, not proved.",
    ref="DESIGN.md 3.2",
    note="Trusted: fresh ExpressionParser() as the memoryless reference; own scanner for 'unsupported character / malformed number'; ordinary strings <= ~100 chars with nesting <= 60; flat chains up to 1500 terms; nesting of 400/1500 levels only as a failing call (RecursionError accepted from bracket depth 100, never below)."),
 "C12": dict(
    technique="deterministic simulation: seeded call histories (parse/tokenize/clear/client list edits) on one parser, compared op-by-op with a memoryless reference model",
    text="Exploration by deterministic simulation: seeded sessions of parse / tokenize / clear_cache / failing-parse calls and list-level client edits of handed-out token lists on one long-lived parser over a small pool of confusable texts; every request is also issued to a fresh parser (the 'no memory' reference model) and, for a seeded sample, to a parser in a pristine process, and trees, token lists and exception classes must agree; marathon sessions (800-2500 calls, mostly new texts) exercise bounded caches and accumulating state. Sampling of histories; evidence, not proof.",
    ref="DESIGN.md 3.1",
    note="Trusted: fresh ExpressionParser() as reference; the harness never mutates returned trees or Token objects (outside the property's quantifier)."),
 "C17": dict(
    technique="deterministic simulation owning the random stream, PYTHONHASHSEED and the global number mode; seeded generator-call sessions with biased-draw fault injection and independent output oracles",
    text="Exploration by deterministic simulation of generator-call sessions on one shared, never re-seeded random stream, in interpreters started under explicit PYTHONHASHSEED values, with the module-global pretty-number switch toggled between calls and a simulator-owned biased stream (extreme, repeated and 'stuck' draws) that makes rare branches and fallbacks common. Oracles: fresh parser accepts the text, positive int complexity, independent like-term detector, distinctness/exclusion of variable sets, split sums. Sampling over seeds x parameters x modes.",
    ref="DESIGN.md 3.4",
    note="Trusted: the harness's own like-term detector and parameter ranges taken as 'documented ranges' (defaults, probabilities in [0,1], counts satisfiable within the 24-letter alphabet)."),
 "C18": dict(
    technique="deterministic simulation: seeded layout-call sessions on shared nodes (stale per-node state, sub-tree layouts, rotations between calls) against a pristine-clone reference layout; exhaustive small shapes as session starts",
    text="Exploration by deterministic simulation of layout-call histories on one tree whose nodes keep layout scratch state between calls: repeated layouts (by one long-lived TreeLayout object or a new one per call), layouts of sub-trees, other multipliers and structural edits (rotate, swap, grow, prune) in between; trees are fresh shapes (random, motif-composed, full; a 'tall' stratum with spines of 40-130 levels and marathon sessions of 500-1400 calls on one TreeLayout object), parsed expressions and rewrite results with duplicate node ids. Reference model: the layout of a pristine clone of the current shape; mirror clone must give mirrored coordinates; tidy-tree invariants are step invariants on every call. Thorough tier enumerates every shape up to 10 nodes as session start (quick: 8) (exhaustive for the shape clause up to that bound) and samples larger ones.",
    ref="DESIGN.md 3.5",
    note="Trusted: own invariant checker; the pristine-clone layout as reference for repeatability (real code on fresh nodes)."),
}

NA = {
 "C01": "pure function of (tree, node, rule, option): no history, schedule, clock or fault for a simulator to control; exercised along C09 episodes but not claimed",
 "C02": "pure function of (equation, node, rule): same as C01; exercised by C09 episodes that start from equations but not claimed",
 "C03": "pure function of the input string (grammar conformance); no state, interleaving or fault involved",
 "C05": "pure function of (tree, assignment); evaluation reads no state, clock or stream",
 "C06": "pure function of (tree, node, rule): rules are stateless and the applicability check writes only the r_index scratch field; no schedule or fault to simulate",
 "C07": "pure function of (tree, node, rule); structural soundness of one result has no history dimension (C09's isolation invariant exercises it, no claim)",
 "C08": "pure function of a documented schema instance; nothing nondeterministic or stateful to put behind a seam",
 "C11": "pure function of (string, padding flag); the tokenizer object keeps no state between calls",
 "C13": "pure function of one tree (clone, then one mutation of one copy); no call history beyond that pair",
 "C14": "pure function of (tree shape, traversal order, stop index)",
 "C15": "pure function of (tree shape, node)",
 "C16": "pure functions of their argument (term analysis); no state or randomness",
}

def build(active):
    checks = []
    for pid in sorted(CLAIMED):
        if pid not in active:
            continue
        c = CLAIMED[pid]
        checks.append({
            "property_id": pid,
            "quick_cmd": f"timeout 900 bin/verif check {pid} --tier quick",
            "thorough_cmd": f"timeout 7200 bin/verif check {pid} --tier thorough",
            "evidence_file": f"/verif/evidence/{pid}.json",
            "replay_cmd_template": "bin/verif replay {path}",
            "engine": "sim",
            "level_claimed": {"category": "exploration", "text": c["text"], "design_ref": c["ref"]},
            "level_note": c["note"],
            "technique": c["technique"],
        })
    na = [{"property_id": k, "reason": v} for k, v in sorted(NA.items())]
    for pid in sorted(CLAIMED):
        if pid not in active:
            na.append({"property_id": pid, "reason": "check not built yet in this commit (planned, DESIGN.md section 3); will move to checks"})
    return {
        "version": 1,
        "setup_cmd": "/venv/bin/python -c \"import sys; sys.path.insert(0,'/repo'); import numpy, mathy_core; print('ok', mathy_core.__file__)\"",
        "hooks": {
            "guard": "MATHY_CORE_VERIF",
            "enable": "no hooks were needed: every seam (random module attribute, PYTHONHASHSEED, module globals, per-node scratch fields) is reachable from outside; checks import /repo sources directly (PYTHONDONTWRITEBYTECODE=1)",
            "baseline_off_cmd": "cd /repo && /venv/bin/python -m pytest -ra -q -p no:cacheprovider --timeout=900 --continue-on-collection-errors",
            "source_commits": [],
            "add_only": True,
        },
        "engines": [{
            "name": "sim",
            "path": "/verif/sim",
            "serves_properties": sorted(active),
            "kind_free_text": "own deterministic simulator: one PRNG per (VERIF_SEED, property, stratum, run index); hermetic worlds; reference-model oracles per step; ddmin minimisation; replay by recorded op list in a fresh interpreter",
        }],
        "checks": checks,
        "not_applicable": na,
        "notes": "Technique family: deterministic simulation with fault injection. See DESIGN.md. Known findings: /verif/known_findings.json.",
    }

if __name__ == "__main__":
    active = sys.argv[1:] or sorted(CLAIMED)
    json.dump(build(active), open("/verif/MANIFEST.json", "w"), indent=1)
    print("wrote MANIFEST.json with", active)
