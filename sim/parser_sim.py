"""Parser-session simulation (C10, C12).

World: one long-lived ExpressionParser P (real code) driven by a simulated
client that also keeps every token list P handed out and edits them at list
level.  Reference model: "a parser has no memory" -- the same request issued
to a fresh ExpressionParser().  C10 adds: closed exception set, termination,
well-formed trees, and a systematic abort-point sweep (a parse failing at
every cursor position, followed by good parses on the same parser)."""
from __future__ import annotations

import hashlib
import re

from . import core, gen, trees
from .core import Finding

OP_BUDGET_S = 2.0
ALPHABET = set("0123456789.abcdefghijklmnopqrstuvwxyzABCDEFGHIJKLMNOPQRSTUVWXYZ+-*/^!=()[] \t\r\n–")
GOOD = ["4x + 2y", "(7 + 3) * 2", "x^2 - 1 = 0", "-(a + b)", "2xy", "5!"]
POISON = [")", "^", "=", "!", "*", "1.2.3", "#", "(", "-"]
_TOK = re.compile(r"sgn|\d[\d.]*|\.[\d.]*|[A-Za-z]|\s+|.", re.S)


def split_tokens(s):
    return _TOK.findall(s)


def value_error_reason(text: str) -> bool:
    """Own scanner: is there an unsupported character or a malformed number
    run -- the only cases in which the statement allows ValueError."""
    for ch in text:
        if ch not in ALPHABET:
            return True
    for run in re.findall(r"[0-9.]+", text):
        try:
            float(run)
        except ValueError:
            return True
        if "." not in run and len(run) > 4000:
            return True
    return False


def _h(obj) -> str:
    try:
        r = repr(obj)
    except ValueError:       # an int of more than 4300 digits among token values: Python refuses to print it
        r = "<unprintable: contains a huge int>"
    return hashlib.sha1(r.encode()).hexdigest()[:12]


class World:
    def __init__(self, cfg, res):
        from mathy_core.parser import ExpressionParser
        self.cfg = cfg
        self.res = res
        self.P = ExpressionParser()
        self.handles = []          # token lists handed out by P
        self.failed_before = False
        self.seen = {}             # text -> set of things that happened to it
        self.text_rank = {}
        self.since_change = set()  # texts requested since last state-changing call? (probe)
        self.history_sig = []
        self.n_requests = 0
        self.nontrivial = False
        res.sigs = {"histories": set()}

    # -- helpers ----------------------------------------------------------
    def _outcome_parse(self, parser, text):
        from mathy_core.parser import ParserException
        try:
            with core.op_budget(OP_BUDGET_S):
                tree = parser.parse(text)
        except core.OpTimeout:
            return ("hang",), None
        except RecursionError as e:
            return ("exc", "RecursionError", ""), e
        except Exception as e:  # noqa
            return ("exc", type(e).__name__, str(e)[:80]), e
        return ("ok", trees.sig_hash(tree), trees.brief(tree)), tree

    def _outcome_tokenize(self, parser, text):
        try:
            with core.op_budget(OP_BUDGET_S):
                toks = parser.tokenize(text)
        except core.OpTimeout:
            return ("hang",), None
        except Exception as e:  # noqa
            return ("exc", type(e).__name__, str(e)[:80]), e
        try:
            return ("ok", tuple((t.type, t.value) for t in toks)), toks
        except Exception as e:  # noqa  (bogus objects in the list)
            return ("ok", ("unreadable", type(e).__name__)), toks

    def _bitmap(self, text):
        tc = getattr(self.P, "_tokens_cache", None)
        pc = getattr(self.P, "_parse_cache", None)
        a = 1 if isinstance(tc, dict) and text in tc else 0
        b = 1 if isinstance(pc, dict) and text in pc else 0
        return a * 2 + b

    def _rank(self, text):
        if text not in self.text_rank:
            self.text_rank[text] = len(self.text_rank)
        return self.text_rank[text]

    def _probe_request(self, kind, text):
        st = self.res.stats
        seen = self.seen.setdefault(text, set())
        bm = self._bitmap(text)
        if bm & 1 and kind == "parse":
            st["probe.parse_served_from_cache"] += 1
        if bm & 2 and kind == "tokenize":
            st["probe.tokenize_served_from_cache"] += 1
        if seen:
            st["probe.repeat_request"] += 1
            self.nontrivial = True
        if "parse" in seen and kind == "tokenize":
            st["probe.tokenize_after_parse"] += 1
        if "tokenize" in seen and kind == "parse":
            st["probe.parse_after_tokenize"] += 1
        if "cleared" in seen:
            st["probe.request_after_clear"] += 1
        if "failed" in seen:
            st["probe.request_after_failed_parse_same_text"] += 1
        if "edited" in seen:
            st["probe.request_after_edit_of_its_list"] += 1
        if any(t != text and t.startswith(text) and "failed" in s for t, s in self.seen.items()):
            st["probe.request_for_prefix_of_failed_text"] += 1
        if self.failed_before:
            st["probe.request_after_any_failure"] += 1
        return bm

    # -- ops --------------------------------------------------------------
    def apply(self, op):
        from mathy_core.parser import ExpressionParser, ParserException
        st = self.res.stats
        kind = op[0]
        fs = []
        if kind == "clear":
            self.P.clear_cache()
            st["fault.cache_clear"] += 1
            for s in self.seen.values():
                if s:
                    s.add("cleared")
            self.res.events.append("clear")
            self.history_sig.append(("clear",))
            return fs
        if kind == "edit":
            if not self.handles:
                self.res.events.append("edit skip")
                return fs
            h = op[1] % len(self.handles)
            text, lst = self.handles[h]
            try:
                self._edit(lst, op[2], op[3])
            except (AttributeError, TypeError):
                # an immutable sequence cannot be edited: nothing to inject
                st["edit_not_applicable"] += 1
                self.res.events.append(f"edit {h} {op[2]} n/a")
                return fs
            st["fault.client_edit_" + op[2]] += 1
            self.seen.setdefault(text, set()).add("edited")
            self.res.events.append(f"edit {h} {op[2]}")
            self.history_sig.append(("edit", self._rank(text), op[2]))
            return fs
        text = op[1]
        if kind == "parse":
            bm = self._probe_request("parse", text)
            got, obj = self._outcome_parse(self.P, text)
            ref, _ = self._outcome_parse(ExpressionParser(), text)
            st["parses"] += 1
            if got[0] == "hang":
                fs.append(Finding("C10", {"clause": "terminates", "op": "parse"},
                                  f"parse({text!r}) did not return within {OP_BUDGET_S}s"))
            elif got[0] == "exc":
                st["fault.parse_aborted"] += 1
                st["exc." + got[1]] += 1
                if isinstance(obj, ParserException):
                    pass
                elif isinstance(obj, ValueError) and value_error_reason(text):
                    pass
                elif isinstance(obj, RecursionError) and gen.bracket_depth(text) >= gen.DEEP_NESTING:
                    st["fault.parse_aborted_by_recursion_limit"] += 1   # nesting is not bounded: allowed
                else:
                    fs.append(Finding("C10", {"clause": "closed-errors", "exc": got[1]},
                                      f"parse({text!r}) raised {got[1]}: {got[2]}"))
            else:
                st["parse_ok"] += 1
                probs = trees.audit(obj, max_nodes=20000, payload=False)
                if probs:
                    fs.append(Finding("C10", {"clause": "well-formed", "what": probs[0][:40]},
                                      f"parse({text!r}) returned a malformed tree: {probs[0]}"))
            diff = self._diff(got, ref)
            if diff is not None:
                fs.extend(self._history_findings("parse", text, diff, got, ref))
            else:
                self.n_requests += 1
                pr = self._pristine("parse", text, got)
                if pr is not None:
                    fs.extend(self._history_findings("parse", text, pr[0], got, pr[1], where="pristine-process"))
            if got[0] == "exc":
                self.failed_before = True
                self.seen.setdefault(text, set()).add("failed")
            self.seen.setdefault(text, set()).add("parse")
            self.res.events.append(f"parse {text!r} -> {got[0]}:{got[1] if got[0]=='exc' else _h(got)}")
            self.history_sig.append(("parse", self._rank(text), got[0], bm))
            return fs
        if kind == "tokenize":
            bm = self._probe_request("tokenize", text)
            got, lst = self._outcome_tokenize(self.P, text)
            ref, _ = self._outcome_tokenize(ExpressionParser(), text)
            st["tokenizes"] += 1
            if got[0] == "hang":
                fs.append(Finding("C10", {"clause": "terminates", "op": "tokenize"},
                                  f"tokenize({text!r}) did not return within {OP_BUDGET_S}s"))
            if got[0] == "ok":
                if isinstance(lst, list) and any(lst is l for _, l in self.handles):
                    fs.append(Finding("C12", {"clause": "history", "op": "tokenize", "diff": "aliased-list"},
                                      f"tokenize({text!r}) returned a list object it had handed out before"))
                self.handles.append((text, lst))
            elif got[0] == "exc":
                st["fault.tokenize_aborted"] += 1
            diff = self._diff(got, ref)
            if diff is not None:
                fs.extend(self._history_findings("tokenize", text, diff, got, ref))
            else:
                self.n_requests += 1
                pr = self._pristine("tokenize", text, got)
                if pr is not None:
                    fs.extend(self._history_findings("tokenize", text, pr[0], got, pr[1], where="pristine-process"))
            self.seen.setdefault(text, set()).add("tokenize")
            self.res.events.append(f"tokenize {text!r} -> {got[0]}:{_h(got)}")
            self.history_sig.append(("tokenize", self._rank(text), got[0], bm))
            return fs
        raise core.HarnessError(f"unknown op {op!r}")

    def _pristine(self, kind, text, got):
        """Second reference: the same request answered in a pristine process."""
        oracle = core.get_oracle("parser")
        if oracle is None:
            return None
        p = self.cfg.get("pristine_p", 0.0)
        if not self.res.replaying:
            if p <= 0 or core.derive("pristine", self.cfg.get("oracle_seed", 0), self.n_requests) % 1000 >= p * 1000:
                return None
        self.res.stats["probe.checked_against_pristine_process"] += 1
        ref = oracle.ask((kind, text))
        d = self._diff(got, ref)
        if d is None:
            return None
        return d, ref

    def _diff(self, got, ref):
        if got[0] == "hang" or ref[0] == "hang":
            return None if got[0] == ref[0] else "hang"
        if got[0] != ref[0]:
            return f"{got[0]}-vs-{ref[0]}"
        if got[0] == "exc":
            if got[1] != ref[1]:
                return "exc-class"
            if got[2] != ref[2]:
                self.res.stats["diag.exception_message_differs"] += 1
            return None
        return None if got[1] == ref[1] else "result"

    def _history_findings(self, op, text, diff, got, ref, where="fresh-parser"):
        def brief(o):
            if o[0] == "exc":
                return f"{o[1]}({o[2][:40]})"
            if len(o) > 2:
                return f"ok:[{o[2]}]#{o[1][:8]}"
            return f"{o[0]}:{str(o[1])[:120]}"
        who = "a fresh parser" if where == "fresh-parser" else "a fresh parser in a pristine process"
        detail = (f"{op}({text!r}) on the used parser gave {brief(got)}, "
                  f"{who} gives {brief(ref)}")
        key = {"clause": "history", "op": op, "diff": diff}
        if where != "fresh-parser":
            key["ref"] = where
        fs = [Finding("C12", key, detail)]
        if self.failed_before:
            fs.append(Finding("C10", dict(key, clause="sticky-state"),
                              "after an earlier failed parse: " + detail))
        return fs

    def _edit(self, lst, how, arg):
        from mathy_core.tokenizer import Token, TOKEN_TYPES
        bogus = Token("zz", TOKEN_TYPES.Invalid)
        n = len(lst)
        if how == "pop_front":
            for _ in range(min(n, 1 + arg % 4)):
                lst.pop(0)
        elif how == "consume_all":
            del lst[:]
        elif how == "reverse":
            lst.reverse()
        elif how == "append":
            lst.append(bogus)
        elif how == "insert":
            lst.insert(arg % (n + 1), bogus)
        elif how == "replace":
            if n:
                lst[arg % n] = bogus
        elif how == "del_slice":
            if n:
                a = arg % n
                del lst[a:a + 2]
        elif how == "drop_eof":
            if n:
                lst.pop()
        else:
            raise core.HarnessError(f"unknown edit {how}")

    def finish(self):
        sig = hashlib.sha1(repr(self.history_sig).encode()).hexdigest()[:16]
        if self.nontrivial:
            self.res.sigs["histories"].add(sig)
        return []


EDITS = ["pop_front", "consume_all", "reverse", "append", "insert", "replace", "del_slice", "drop_eof"]


class ParserSim:
    name = "parser"
    distinct_measure = "histories"

    def plan(self, prop, tier):
        if prop == "C10":
            if tier == "quick":
                return [("sessions", 40000), ("sweep", len(gen.CORPUS)), ("marathon", 48)]
            return [("sessions", 1200000), ("sweep", len(gen.CORPUS) + 6000), ("marathon", 3000)]
        if tier == "quick":
            return [("sessions", 60000), ("marathon", 48)]
        return [("sessions", 2000000), ("marathon", 3000)]

    def batch_size(self, stratum):
        return 500 if stratum == "sessions" else (3 if stratum == "marathon" else 4)

    def new_world(self, cfg, res):
        return World(cfg, res)

    @staticmethod
    def pristine_handler(request):
        """Runs in a grandchild of a zygote forked before any code under test ran."""
        kind, text = request

        class _R:
            pass
        w = World.__new__(World)
        from mathy_core.parser import ExpressionParser
        if kind == "parse":
            return World._outcome_parse(w, ExpressionParser(), text)[0]
        return World._outcome_tokenize(w, ExpressionParser(), text)[0]

    # ------------------------------------------------------------------
    def draw_config(self, rng, prop, tier, stratum, idx):
        gcfg = {
            "depth": rng.choice([1, 2, 2, 3, 4]),
            "floats": rng.random() < 0.8,
            "fact": rng.random() < 0.7,
            "sgn": rng.random() < 0.6,
            "brackets": rng.random() < 0.4,
            "endash": rng.random() < 0.3,
            "upper": rng.random() < 0.3,
            "space": rng.choice([0, 1, 1, 2]),
            "eq": rng.random() < 0.7,
            "soup_len": rng.choice([3, 6, 10, 16]),
            "max_len": 80,
            "long_literals": rng.random() < 0.3,
            # variable alphabet of the session (incl. letters that can spell 'sgn' by juxtaposition)
            "vars": "".join(rng.sample("abcdefghijklmnopqrstuvwxyz", rng.choice([2, 3, 5, 8]))) + rng.choice(["", "x", "sgn", "e"]),
        }
        cfg = {"prop": prop, "stratum": stratum, "gen": gcfg,
               "pristine_p": rng.choice([0.0, 0.02, 0.05, 0.2]), "oracle_seed": rng.randrange(2 ** 32)}
        if stratum == "sweep":
            cfg["script"] = self._sweep_script(rng, gcfg, idx)
            return cfg
        if stratum == "marathon":
            # one very long-lived parser that keeps meeting new texts (bounded caches,
            # counters and other state that only shows after hundreds of calls)
            cfg["n_ops"] = rng.choice([800, 1500, 2500])
            cfg["fail_bias"] = rng.choice([0.3, 0.5, 0.7])
            cfg["new_text_p"] = rng.choice([0.6, 0.8, 0.95])
            cfg["w"] = {"parse": 8, "tokenize": rng.choice([0, 1, 3]), "clear": rng.choice([0, 0, 1]),
                        "edit": rng.choice([0, 1])}
            cfg["marathon_seed"] = rng.randrange(2 ** 32)
            cfg["pristine_p"] = 0.0
            return cfg
        # swarm weights
        fail_bias = rng.choice([0.5, 0.7, 0.85]) if prop == "C10" else rng.choice([0.15, 0.3, 0.5])
        # mostly short sessions; a few long ones for state that accumulates over many calls
        cfg["n_ops"] = rng.choice([6, 10, 16, 24, 40, 40, 120, 300] if rng.random() < 0.1 else [6, 10, 16, 24, 40])
        cfg["w"] = {
            "parse": rng.choice([3, 5, 8]),
            "tokenize": rng.choice([0, 1, 3, 5]) if prop == "C12" else rng.choice([0, 1]),
            "clear": rng.choice([0, 0, 1, 2]) if prop == "C12" else rng.choice([0, 1]),
            "edit": rng.choice([0, 1, 3, 5]) if prop == "C12" else rng.choice([0, 1]),
        }
        cfg["fail_bias"] = fail_bias
        cfg["typist"] = rng.random() < 0.08
        cfg["pool"] = self._pool(rng, gcfg, fail_bias)
        return cfg

    def _pool(self, rng, gcfg, fail_bias):
        n = rng.randint(3, 6)
        pool = []
        while len(pool) < n:
            r = rng.random()
            if pool and r < 0.35:
                base = rng.choice(pool)
                cands = gen.confusables(rng, base)
                cands.append(base.replace("(", "").replace(")", "").replace("[", "").replace("]", ""))
                printed = self._printed_form(base)
                if printed is not None and printed != base:
                    cands.extend([printed, printed])
                pool.append(rng.choice(cands) if cands else base + " ")
            elif r < 0.35 + 0.65 * (1 - fail_bias):
                pool.append(gen.valid_text(rng, gcfg) if rng.random() < 0.8 else rng.choice(gen.CORPUS))
            elif rng.random() < 0.04:
                # long flat inputs (no nesting at all): hundreds of terms, sometimes left dangling
                pool.append(gen.long_flat(rng))
            else:
                q = rng.random()
                if q < 0.06:
                    pool.append(gen.numberish(rng))
                elif q < 0.4:
                    pool.append(gen.soup(rng, gcfg))
                elif q < 0.9:
                    s = gen.valid_text(rng, gcfg) if rng.random() < 0.7 else rng.choice(gen.CORPUS)
                    for _ in range(rng.randint(1, 2)):
                        s = gen.mutate(rng, s)
                    pool.append(s)
                elif rng.random() < 0.12:
                    # nesting beyond the recursion limit: a parse that dies with RecursionError half-way
                    pool.append(gen.deep_nested(rng))
                else:
                    k = rng.randint(2, 60)
                    pool.append("(" * k + "x" + ")" * rng.choice([k, k - 1, k + 1]))
        return pool

    @staticmethod
    def _printed_form(text):
        """str() of the parsed text: a different text with (usually) the same meaning,
        which a cache keyed by some canonical form could confuse with the original."""
        try:
            from mathy_core.parser import ExpressionParser
            return str(core.bounded_parse(text))
        except Exception:
            return None

    def _sweep_script(self, rng, gcfg, idx):
        if idx < len(gen.CORPUS):
            s = gen.CORPUS[idx]
        else:
            s = gen.valid_text(rng, gcfg)
        toks = split_tokens(s)[:16]
        s = "".join(toks)
        ops = []
        good = rng.choice(GOOD)
        for k in range(len(toks) + 1):
            variants = []
            if k < len(toks):
                variants.append("".join(toks[:k]))
                poisons = POISON if len(toks) <= 10 else rng.sample(POISON, 4)
                for p in poisons:
                    variants.append("".join(toks[:k] + [p] + toks[k + 1:]))
                    if rng.random() < 0.25:
                        variants.append("".join(toks[:k] + [p] + toks[k:]))
            for v in variants:
                ops.append(["parse", v])
                ops.append(["parse", good])
                ops.append(["parse", good])
                ops.append(["parse", s])
                if rng.random() < 0.2:
                    ops.append(["tokenize", s])
        return ops

    def generate(self, rng, cfg, world):
        if "script" in cfg:
            for op in cfg["script"]:
                yield op
            return
        if cfg.get("stratum") == "marathon":
            yield from self._marathon(rng, cfg)
            return
        pool = cfg["pool"]
        w = cfg["w"]
        kinds = [k for k in ("parse", "tokenize", "clear", "edit") for _ in range(w[k])]
        last_text = None
        if cfg.get("typist"):
            # a text typed key by key (and sometimes deleted again), each state submitted
            t = rng.choice(pool)
            call = rng.choice(["parse", "tokenize", "mixed"])
            n = 0
            for i in list(range(1, len(t) + 1)) + (list(range(len(t) - 1, max(0, len(t) - 4), -1)) if rng.random() < 0.3 else []):
                k = call if call != "mixed" else rng.choice(["parse", "tokenize"])
                yield [k, t[:i]]
                n += 1
                if n >= cfg["n_ops"]:
                    break
        for _ in range(cfg["n_ops"]):
            k = rng.choice(kinds)
            if k in ("parse", "tokenize"):
                if last_text is not None and rng.random() < 0.25:
                    t = last_text
                else:
                    t = rng.choice(pool)
                last_text = t
                yield [k, t]
            elif k == "clear":
                yield ["clear"]
            else:
                yield ["edit", rng.randrange(64), rng.choice(EDITS), rng.randrange(64)]

    def _marathon(self, rng, cfg):
        gcfg = cfg["gen"]
        seen = []
        w = cfg["w"]
        kinds = [k for k in ("parse", "tokenize", "clear", "edit") for _ in range(w[k])]
        for i in range(cfg["n_ops"]):
            k = rng.choice(kinds)
            if k == "clear":
                if rng.random() < 0.02:
                    yield ["clear"]
                continue
            if k == "edit":
                yield ["edit", rng.randrange(1 << 16), rng.choice(EDITS), rng.randrange(64)]
                continue
            if seen and rng.random() > cfg["new_text_p"]:
                t = seen[-1 - min(len(seen) - 1, int(rng.expovariate(0.05)))] if rng.random() < 0.7 else rng.choice(seen)
            else:
                if rng.random() < cfg["fail_bias"]:
                    base = gen.valid_text(rng, gcfg)
                    q = rng.random()
                    if q < 0.5:
                        t = base[: rng.randint(0, max(1, len(base) - 1))]      # truncation: groups left open
                    elif q < 0.8:
                        t = gen.mutate(rng, base)
                    else:
                        t = gen.soup(rng, gcfg)
                else:
                    t = gen.valid_text(rng, gcfg)
                seen.append(t)
            yield [k, t]

    def shrink_ops(self, cfg, ops):
        # shorter texts: drop chunks (large first), consistently across ops using the same text
        texts = []
        for op in ops:
            if op[0] in ("parse", "tokenize") and op[1] not in texts:
                texts.append(op[1])
        for t in sorted(texts, key=len, reverse=True):
            n = len(t)
            size = max(1, n // 2)
            while size >= 1:
                for a in range(0, n, size):
                    cand = t[:a] + t[a + size:]
                    if cand == t:
                        continue
                    yield [[o[0], cand] if (o[0] in ("parse", "tokenize") and o[1] == t) else o
                           for o in ops]
                size //= 2
        # simpler edits
        for i, op in enumerate(ops):
            if op[0] == "edit" and (op[1] != 0 or op[3] != 0):
                yield ops[:i] + [["edit", 0, op[2], 0]] + ops[i + 1:]

    # ------------------------------------------------------------------
    def rule_text(self, prop):
        return ("Seeded sessions of parse/tokenize/clear_cache calls and list-level client edits on one "
                "long-lived ExpressionParser, over a small per-session pool of confusable texts (valid, "
                "invalid, whitespace/case/bracket/en-dash variants, prefixes); every request is also "
                "issued to a fresh parser and outcomes compared. C10 adds a systematic abort-point sweep "
                "(truncation and poison token at every token position, each followed by good parses). "
                "distinct_nontrivial = distinct sequences of (op kind, text rank, outcome class, cache "
                "occupancy bitmap) among sessions that contain at least one repeated request for a text.")

    def probe_names(self, prop):
        return ["parse_served_from_cache", "tokenize_served_from_cache", "repeat_request",
                "tokenize_after_parse", "parse_after_tokenize", "request_after_clear",
                "request_after_failed_parse_same_text", "request_after_edit_of_its_list",
                "request_for_prefix_of_failed_text", "request_after_any_failure",
                "checked_against_pristine_process"]

    def components(self, prop):
        return {
            "real": ["mathy_core.parser.ExpressionParser (long-lived instance)", "mathy_core.tokenizer",
                     "mathy_core.expressions node constructors"],
            "simulated": ["client issuing calls and editing handed-out token lists",
                          "seeded scheduler of call order / text choice / abort placement"],
            "reference_models": ["fresh ExpressionParser() per request (real code, no history)",
                                 "the same request answered in a pristine process (grandchild of a zygote forked "
                                 "before any code under test ran) for a seeded sample of requests and for every "
                                 "request when replaying",
                                 "own scanner deciding when ValueError is permitted",
                                 "own link audit of returned trees"],
            "stubbed": [],
        }

    def assumptions(self, prop):
        return ["a fresh ExpressionParser() is history-free (it is the reference model)",
                "the harness never mutates trees or Token objects returned by the parser",
                "ordinary texts are <= ~100 characters with nesting <= 60; flat chains are explored up to 1500 terms / "
                "factors for every operator (the pinned parser's right-recursive parse_mult raised RecursionError from "
                "~990 chained factors: repaired in /repo, DESIGN 12.15); bracket nesting of 400 and 1500 levels is "
                "explored as a failing call (RecursionError is allowed from nesting depth 100, never below)",
                "sampling: a clean batch is evidence, not proof"]


SIM = ParserSim()
