"""Oracles over expression trees that never call the code under test's own
evaluate/str: structural signature, link audit, exact rational evaluator with
a forward-error scale, equivalence of expressions and of equations."""
from __future__ import annotations

import math
from fractions import Fraction

import numpy as np

from mathy_core import expressions as E

UNDEF = None
MAX_BITS = 6000


# --------------------------------------------------------------------------
# structural signature


def const_payload(v):
    if isinstance(v, bool):
        return ("bool", repr(v))
    if isinstance(v, (int, np.integer)):
        return ("int", repr(int(v)))
    if isinstance(v, (float, np.floating)):
        return ("float", repr(float(v)))
    return (type(v).__name__, repr(v))


def sig(node):
    """Nested tuple: kinds, shape, operand sides, payloads (no ids)."""
    if node is None:
        return None
    k = type(node).__name__
    if isinstance(node, E.ConstantExpression):
        return (k, const_payload(node.value), sig(node.left), sig(node.right))
    if isinstance(node, E.VariableExpression):
        return (k, node.identifier, sig(node.left), sig(node.right))
    return (k, None, sig(node.left), sig(node.right))


def sig_typed(node):
    """Like sig but also the exact python type of constants."""
    if node is None:
        return None
    k = type(node).__name__
    if isinstance(node, E.ConstantExpression):
        return (k, (type(node.value).__name__, vrepr(node.value)), sig_typed(node.left),
                sig_typed(node.right))
    if isinstance(node, E.VariableExpression):
        return (k, node.identifier, sig_typed(node.left), sig_typed(node.right))
    return (k, None, sig_typed(node.left), sig_typed(node.right))


def sig_hash(root):
    """Iterative structural hash (kinds, shape, sides, typed payloads): safe on
    trees hundreds of levels deep, where a nested-tuple signature would hit the
    recursion limit of repr/pickle."""
    import hashlib
    if root is None:
        return "none"
    out = {}
    stack = [(root, False)]
    seen = set()
    while stack:
        n, done = stack.pop()
        if n is None:
            continue
        if done:
            if isinstance(n, E.ConstantExpression):
                pay = (type(n.value).__name__, vrepr(n.value))
            elif isinstance(n, E.VariableExpression):
                pay = n.identifier
            else:
                pay = None
            l = out.get(id(n.left), "-") if n.left is not None else "-"
            r = out.get(id(n.right), "-") if n.right is not None else "-"
            out[id(n)] = hashlib.sha1(repr((type(n).__name__, pay, l, r)).encode()).hexdigest()[:20]
            continue
        if id(n) in seen:
            out[id(n)] = "cycle"
            continue
        seen.add(id(n))
        stack.append((n, True))
        stack.append((n.right, False))
        stack.append((n.left, False))
    return out[id(root)]


def vrepr(v) -> str:
    """repr of a constant's value that never fails: Python refuses to print ints of more
    than 4300 digits (ValueError), and a parser may legitimately hold one."""
    if isinstance(v, int) and not isinstance(v, bool) and v.bit_length() > 12000:
        return f"<int of {v.bit_length()} bits, hash {hash(v)}>"
    return repr(v)


def brief(root, limit=14) -> str:
    """Short iterative description: the first few nodes in preorder."""
    names = []
    for n in nodes_preorder(root)[:limit]:
        if isinstance(n, E.ConstantExpression):
            names.append(vrepr(n.value))
        elif isinstance(n, E.VariableExpression):
            names.append(str(n.identifier))
        else:
            names.append(type(n).__name__.replace("Expression", ""))
    return " ".join(names)


def show(node) -> str:
    """Own unambiguous printer (fully parenthesised prefix form)."""
    if node is None:
        return "_"
    if isinstance(node, E.ConstantExpression):
        return vrepr(node.value) if not isinstance(node.value, np.generic) else f"np({node.value!r})"
    if isinstance(node, E.VariableExpression):
        return str(node.identifier)
    names = {"AddExpression": "+", "SubtractExpression": "-", "MultiplyExpression": "*",
             "DivideExpression": "/", "PowerExpression": "^", "EqualExpression": "=",
             "NegateExpression": "neg", "FactorialExpression": "fact",
             "SgnExpression": "sgn", "AbsExpression": "abs"}
    n = names.get(type(node).__name__, type(node).__name__)
    if isinstance(node, E.UnaryExpression):
        return f"({n} {show(node.left) if node.left is not None else show(node.right)})"
    return f"({n} {show(node.left)} {show(node.right)})"


def nodes_preorder(root):
    out = []
    stack = [root]
    seen = set()
    while stack:
        n = stack.pop()
        if n is None or id(n) in seen:
            continue
        seen.add(id(n))
        out.append(n)
        stack.append(n.right)
        stack.append(n.left)
    return out


def size(root) -> int:
    return len(nodes_preorder(root))


# --------------------------------------------------------------------------
# link audit (DESIGN 5.2)


def audit(root, max_nodes=5000, payload=True):
    """Return a list of problem strings (empty = well formed).  payload=False
    checks links and arity only (a parser may legitimately produce an infinite
    float constant for a 400-digit decimal literal)."""
    probs = []
    if root is None:
        return ["root is None"]
    if root.parent is not None:
        probs.append("root has a parent")
    seen = set()
    stack = [root]
    count = 0
    while stack:
        n = stack.pop()
        if id(n) in seen:
            probs.append(f"node object {type(n).__name__} reachable twice")
            continue
        seen.add(id(n))
        count += 1
        if count > max_nodes:
            probs.append("more than max_nodes nodes (cycle?)")
            break
        if not isinstance(n, E.MathExpression):
            probs.append(f"non-expression node {type(n).__name__}")
            continue
        for side in ("left", "right"):
            c = getattr(n, side)
            if c is not None:
                if c.parent is not n:
                    probs.append(f"{side} child of {type(n).__name__} has wrong parent")
                stack.append(c)
        if isinstance(n, E.BinaryExpression):
            if n.left is None or n.right is None:
                probs.append(f"{type(n).__name__} lacks an operand")
        elif isinstance(n, E.UnaryExpression):
            kids = [c for c in (n.left, n.right) if c is not None]
            if len(kids) != 1:
                probs.append(f"{type(n).__name__} has {len(kids)} operands")
            elif n.get_child() is not kids[0]:
                probs.append(f"{type(n).__name__} operand on the side get_child() does not read")
        elif isinstance(n, E.ConstantExpression):
            if n.left is not None or n.right is not None:
                probs.append("constant with children")
            v = n.value
            if isinstance(v, bool) or not isinstance(v, (int, float, np.integer, np.floating)):
                probs.append(f"constant payload of type {type(v).__name__}")
            elif payload and isinstance(v, (float, np.floating)) and not math.isfinite(float(v)):
                probs.append(f"constant payload not finite: {v!r}")
        elif isinstance(n, E.VariableExpression):
            if n.left is not None or n.right is not None:
                probs.append("variable with children")
            if not isinstance(n.identifier, str) or not n.identifier:
                probs.append(f"variable identifier {n.identifier!r}")
    return probs


# --------------------------------------------------------------------------
# exact evaluation with forward-error scale


class EvalSkip(Exception):
    """The sample point is outside the domain we evaluate exactly."""


def _const(v) -> Fraction:
    if isinstance(v, (int, np.integer)) and not isinstance(v, bool):
        return Fraction(int(v))
    if isinstance(v, (float, np.floating)):
        f = float(v)
        if not math.isfinite(f):
            raise EvalSkip("non-finite constant")
        return Fraction(f)
    raise EvalSkip("odd constant")


def _big(fr: Fraction) -> bool:
    return fr.numerator.bit_length() > MAX_BITS or fr.denominator.bit_length() > MAX_BITS


SMALL_DIV = Fraction(1, 10 ** 6)


def ev(node, env):
    """-> (value, scale) as Fractions; scale >= |value| is the value of the
    tree with absolute values throughout (condition-aware for / and ^).
    Raises EvalSkip where the point is outside the exactly-evaluated domain."""
    if isinstance(node, E.ConstantExpression):
        c = _const(node.value)
        return c, abs(c)
    if isinstance(node, E.VariableExpression):
        if node.identifier not in env:
            raise EvalSkip("unbound variable")
        x = env[node.identifier]
        return x, abs(x)
    if isinstance(node, E.UnaryExpression):
        child = node.left if node.left is not None else node.right
        if child is None:
            raise EvalSkip("malformed")
        a, sa = ev(child, env)
        if isinstance(node, E.NegateExpression):
            return -a, sa
        if isinstance(node, E.AbsExpression):
            return abs(a), sa
        if isinstance(node, E.SgnExpression):
            if sa != abs(a):
                # sign of a rounded quantity is fragile near zero
                if abs(a) < SMALL_DIV * max(sa, 1):
                    raise EvalSkip("sgn near zero")
            return Fraction((a > 0) - (a < 0)), Fraction(1)
        if isinstance(node, E.FactorialExpression):
            if a.denominator != 1 or a < 0 or a > 20:
                raise EvalSkip("factorial domain")
            f = Fraction(math.factorial(int(a)))
            return f, f
        raise EvalSkip("unknown unary")
    if isinstance(node, E.BinaryExpression):
        if node.left is None or node.right is None:
            raise EvalSkip("malformed")
        a, sa = ev(node.left, env)
        b, sb = ev(node.right, env)
        if isinstance(node, E.AddExpression):
            return a + b, sa + sb
        if isinstance(node, E.SubtractExpression):
            return a - b, sa + sb
        if isinstance(node, E.MultiplyExpression):
            v, s = a * b, sa * sb
            if _big(v) or _big(s):
                raise EvalSkip("too big")
            return v, s
        if isinstance(node, E.DivideExpression):
            if b == 0:
                raise EvalSkip("division by zero")
            if abs(b) < SMALL_DIV * max(sb, 1) or abs(b) < SMALL_DIV:
                raise EvalSkip("division by a nearly cancelled quantity")
            return a / b, (sa * sb) / (b * b)
        if isinstance(node, E.PowerExpression):
            if b.denominator != 1 and b.denominator in (2, 3, 4) and abs(b.numerator) <= 12:
                # rational exponent p/q: defined exactly (principal real root) when the base is
                # a non-negative perfect q-th power -- e.g. (x^2)^0.5 = |x| at every rational x
                if a < 0:
                    raise EvalSkip("fractional power of a negative base")
                root = _exact_root(a, b.denominator)
                if root is None:
                    raise EvalSkip("base is not a perfect power")
                p = b.numerator
                if root == 0:
                    if p <= 0:
                        raise EvalSkip("0^nonpositive")
                    return Fraction(0), Fraction(0)
                if root.numerator.bit_length() * abs(p) > MAX_BITS or root.denominator.bit_length() * abs(p) > MAX_BITS:
                    raise EvalSkip("too big")
                v = root ** p
                try:
                    amp = Fraction(float(sa / a) ** float(abs(b)))
                except (OverflowError, ValueError):
                    raise EvalSkip("too big")
                return v, abs(v) * max(amp, 1)
            if b.denominator != 1 or abs(b) > 16:
                raise EvalSkip("exponent domain")
            e = int(b)
            if sb != abs(b):
                # exponent itself computed with cancellation; fine, it is exact here
                pass
            if a == 0:
                if e <= 0:
                    raise EvalSkip("0^nonpositive")
                return Fraction(0), sa ** e
            if abs(a) < SMALL_DIV * max(sa, 1) and e < 0:
                raise EvalSkip("negative power of a nearly cancelled quantity")
            if a.numerator.bit_length() * abs(e) > MAX_BITS or a.denominator.bit_length() * abs(e) > MAX_BITS:
                raise EvalSkip("too big")
            v = a ** e
            ratio = sa / abs(a)
            if ratio.numerator.bit_length() * abs(e) > MAX_BITS:
                raise EvalSkip("too big")
            s = abs(v) * ratio ** abs(e)
            return v, s
        if isinstance(node, E.EqualExpression):
            raise EvalSkip("nested equation")
    raise EvalSkip("unknown node")


def _iroot(n: int, q: int):
    """Exact integer q-th root of n >= 0, or None (integer Newton iteration)."""
    if n < 0:
        return None
    if n < 2:
        return n
    if q == 2:
        r = math.isqrt(n)
    else:
        r = 1 << ((n.bit_length() + q - 1) // q)
        while True:
            nr = ((q - 1) * r + n // r ** (q - 1)) // q
            if nr >= r:
                break
            r = nr
    return r if r ** q == n else None


def _exact_root(a: Fraction, q: int):
    rn = _iroot(a.numerator, q)
    rd = _iroot(a.denominator, q)
    if rn is None or rd is None:
        return None
    return Fraction(rn, rd)


def variables_of(root):
    out = set()
    for n in nodes_preorder(root):
        if isinstance(n, E.VariableExpression) and isinstance(n.identifier, str):
            out.add(n.identifier)
    return sorted(out)


TOL_OK = Fraction(1, 10 ** 9)
TOL_BAD = Fraction(1, 10 ** 6)


# below the smallest normal double: a folded constant that underflows to 0.0 is
# floating-point rounding, not a change of value
TINY = Fraction(1, 10 ** 290)


def close(v1, s1, v2, s2):
    """-> 'eq' | 'round' | 'indet' | 'diff'"""
    if v1 == v2:
        return "eq"
    d = abs(v1 - v2)
    if d < TINY:
        return "round"
    s = max(s1, s2, abs(v1), abs(v2))
    if d <= TOL_OK * s:
        return "round"
    if d <= TOL_BAD * s:
        return "indet"
    return "diff"


POINT_POOL = [Fraction(n) for n in (1, 2, 3, -1, -2, 5, -3, 7, 4, -5)] + \
    [Fraction(3, 2), Fraction(-7, 3), Fraction(5, 4), Fraction(-1, 2), Fraction(11, 3)]


def sample_points(rng, names, n):
    pts = []
    for i in range(n):
        if i < n // 2:
            pts.append({v: Fraction(rng.choice((1, 2, 3, -1, -2, 5, -3, 7, 4, -5, 6, -4)))
                        for v in names})
        else:
            pts.append({v: rng.choice(POINT_POOL) for v in names})
    return pts


class Cmp:
    __slots__ = ("verdict", "checked", "indet", "witness")

    def __init__(self):
        self.verdict = "ok"      # ok | diff | unchecked
        self.checked = 0
        self.indet = 0
        self.witness = ""


def _fmt_env(env):
    return "{" + ",".join(f"{k}={v}" for k, v in sorted(env.items())) + "}"


def _ffmt(v) -> str:
    """float(v) for a message; exact values beyond the float range are described instead."""
    try:
        return repr(float(v))
    except (OverflowError, ValueError):
        n = getattr(v, "numerator", 0)
        d = getattr(v, "denominator", 1)
        return f"<rational of about 2^{n.bit_length() - d.bit_length()}{', negative' if n < 0 else ''}>"


def compare_expr(a, b, points, exact=False) -> Cmp:
    """exact=True demands identical rational values (used where no rounding is
    licensed, e.g. printing and re-parsing a tree)."""
    out = Cmp()
    for env in points:
        try:
            v1, s1 = ev(a, env)
            v2, s2 = ev(b, env)
        except EvalSkip:
            continue
        c = close(v1, s1, v2, s2)
        if exact and c != "eq":
            c = "diff"
        out.checked += 1
        if c == "indet":
            out.indet += 1
        elif c == "diff":
            out.verdict = "diff"
            out.witness = f"at {_fmt_env(env)}: {_ffmt(v1)} vs {_ffmt(v2)}"
            return out
    if out.checked == 0:
        out.verdict = "unchecked"
    return out


def eq_truth(root, env):
    """Three-valued truth of an equation L = R at env (raises EvalSkip outside the
    domain).  Returns (truth, indeterminate).

    * holds:      L and R agree exactly, or to 1e-9 of their own magnitude
                  (rounding of folded constants);
    * fails:      they differ by more than 1e-6 of the forward-error scale
                  (which can be far larger than the magnitudes when a base or a
                  divisor was computed with cancellation);
    * otherwise indeterminate -- the point is not used.  Deciding "holds"
      against the conditioning scale would be unsound: (-45 + 56)^10 = 6 would
      "hold" because the scale of the left side is 101^10.
    """
    l, sl = ev(root.left, env)
    r, sr = ev(root.right, env)
    d = abs(l - r)
    if d == 0:
        return True, False
    mag = max(abs(l), abs(r))
    if mag < TINY:
        # both sides are below the smallest normal double (e.g. after dividing both sides by
        # 1e70 five times): folded constants underflow here, nothing can be decided
        return False, True
    if d <= TOL_OK * mag:
        return True, False
    if d > TOL_BAD * max(sl, sr, mag):
        return False, False
    return False, True


def _residual(root, env):
    l, _ = ev(root.left, env)
    r, _ = ev(root.right, env)
    return l - r


def affine_root(root, var, env):
    """If L-R is (verified on 4 points) affine in `var` with other variables
    fixed by env, return ('root', t) | ('identity', None) | None."""
    try:
        g = []
        for t in (0, 1, 2, 3):
            e2 = dict(env)
            e2[var] = Fraction(t)
            g.append(_residual(root, e2))
    except EvalSkip:
        return None
    d1, d2, d3 = g[1] - g[0], g[2] - g[1], g[3] - g[2]
    if d1 != d2 or d2 != d3:
        return None
    if d1 == 0:
        return ("identity", None) if g[0] == 0 else ("never", None)
    return ("root", -g[0] / d1)


def compare_eqn_exact(a, b, points, planted) -> Cmp:
    """Both sides of the two equations take identical values at every point."""
    out = Cmp()
    names = sorted(set(variables_of(a)) | set(variables_of(b)))
    pts = []
    for env in planted:
        e2 = {v: Fraction(1) for v in names}
        e2.update(env)
        pts.append(e2)
    pts.extend(points)
    for env in pts:
        for side in ("left", "right"):
            try:
                v1, _ = ev(getattr(a, side), env)
                v2, _ = ev(getattr(b, side), env)
            except EvalSkip:
                continue
            out.checked += 1
            if v1 != v2:
                out.verdict = "diff"
                out.witness = f"{side} side at {_fmt_env(env)}: {_ffmt(v1)} vs {_ffmt(v2)} (exact difference {_ffmt(v1 - v2)})"
                return out
    if out.checked == 0:
        out.verdict = "unchecked"
    return out


def compare_eqn(a, b, points, planted, rng) -> Cmp:
    """Equations a (old) and b (new): truth values must agree wherever both are
    defined, at random points, planted solutions and exact affine roots of
    either side."""
    out = Cmp()
    names = sorted(set(variables_of(a)) | set(variables_of(b)))
    test_points = []
    for env in planted:
        e2 = {v: Fraction(1) for v in names}
        e2.update(env)
        test_points.append(("planted", e2))
    for env in points:
        test_points.append(("random", env))
    # exact roots
    for which, eqn in (("old-root", a), ("new-root", b)):
        for env in points[:3]:
            for var in names:
                r = affine_root(eqn, var, env)
                if r is None:
                    continue
                if r[0] == "root":
                    e2 = dict(env)
                    e2[var] = r[1]
                    test_points.append((which, e2))
    for label, env in test_points:
        try:
            ta, ia = eq_truth(a, env)
            tb, ib = eq_truth(b, env)
        except EvalSkip:
            continue
        if ia or ib:
            out.indet += 1
            continue
        out.checked += 1
        if ta != tb:
            out.verdict = "diff"
            out.witness = (f"{label} point {_fmt_env(env)}: old equation "
                           f"{'holds' if ta else 'fails'}, new {'holds' if tb else 'fails'}")
            return out
    if out.checked == 0:
        out.verdict = "unchecked"
    return out


def is_equation(root) -> bool:
    return isinstance(root, E.EqualExpression)


def equivalent(a, b, rng, planted=(), n_points=8) -> Cmp:
    names = sorted(set(variables_of(a)) | set(variables_of(b)))
    pts = sample_points(rng, names, n_points)
    if is_equation(a) != is_equation(b):
        c = Cmp()
        c.verdict = "diff"
        c.witness = "one is an equation, the other is not"
        return c
    if is_equation(a):
        return compare_eqn(a, b, pts, list(planted), rng)
    return compare_expr(a, b, pts)
