"""Generic check driver: plans strata, fans runs out over a fork pool (or over
re-exec'ed interpreters when the hash seed is part of the run identity),
merges results in run-index order, matches known findings, minimises and
writes replay files, writes evidence."""
from __future__ import annotations

import hashlib
import json
import os
import subprocess
import sys
import time
import traceback
from collections import Counter

from . import core
from .core import Finding, HarnessError


def get_sim(name):
    if name == "parser":
        from . import parser_sim
        return parser_sim.SIM
    if name == "layout":
        from . import layout_sim
        return layout_sim.SIM
    if name == "problems":
        from . import problems_sim
        return problems_sim.SIM
    if name == "rewrite":
        from . import rewrite_sim
        return rewrite_sim.SIM
    raise HarnessError(f"unknown sim {name}")


PROP_SIM = {"C04": "rewrite", "C09": "rewrite", "C10": "parser", "C12": "parser", "C17": "problems",
            "C18": "layout"}


def reset_seams():
    """Hermetic world: every piece of process-global state mathy_core has."""
    import random as _random
    import numpy as np
    from mathy_core.tree import BinaryTreeNode
    from mathy_core import problems
    BinaryTreeNode._idCounter = 0
    problems.use_pretty_numbers(True)
    problems.random = _random
    np.seterr(all="warn")
    _random.seed(0)


# --------------------------------------------------------------------------


def run_batch(sim_name, prop, tier, seed, stratum, indices, hash_seed="0", focus=None):
    """Executed inside a worker.  Returns a JSON-able dict."""
    import warnings
    warnings.simplefilter("ignore")
    sim = get_sim(sim_name)
    if hasattr(sim, "pristine_handler"):
        core.start_oracle(sim_name, sim.pristine_handler)     # before any run of this process
    known = core.load_known()
    stats = Counter()
    digests = []
    sigs = {}
    known_hits = {}
    unknown = []
    other = Counter()
    samples = []
    n_ops = 0
    census = Counter()
    census_w = {}
    for idx in indices:
        rng = core.run_rng(seed, prop, stratum, idx)
        cfg = sim.draw_config(rng, prop, tier, stratum, idx)
        cfg["hash_seed"] = hash_seed
        reset_seams()
        res = core.generate_run(sim, rng, cfg, known)
        n_ops += len(res.ops)
        stats.update(res.stats)
        digests.append(core.digest_events(res.events))
        for name, vals in getattr(res, "sigs", {}).items():
            sigs.setdefault(name, set()).update(vals)
        for op_i, f in res.findings:
            if f.prop != prop:
                other[f.prop] += 1
                continue
            kid = core.match_known(f, known)
            if kid is not None:
                ent = known_hits.setdefault(kid, {"n": 0, "witness": None})
                ent["n"] += 1
                if ent["witness"] is None or len(f.detail) < len(ent["witness"]):
                    ent["witness"] = f.detail
            else:
                census[f.key_str()] += 1
                census_w.setdefault(f.key_str(), f.detail)
                if focus is not None and idx != focus:
                    continue
                if len(unknown) < 5 or focus is not None:
                    unknown.append({"index": idx, "finding": f.to_json(), "cfg": cfg,
                                    "ops": res.ops, "op_index": op_i,
                                    "batch_first": indices[0], "stratum": stratum,
                                    "hash_seed": hash_seed})
        if focus is None and len(unknown) >= 3 and not core.CENSUS:
            # enough to report; do not spend the batch's wall budget on more of the same
            stats["batches_cut_short_after_violations"] += 1
            break
        if len(samples) < 2 and len(res.ops) >= 2:
            samples.append({"stratum": stratum, "run_index": idx, "config": cfg,
                            "ops": res.ops[:12], "events": res.events[:12]})
    oracle = core.get_oracle(sim_name)
    if oracle is not None:
        stats["pristine_oracle_requests"] += 0
        if focus is None:
            core.close_oracles()
    return {
        "stratum": stratum, "first": indices[0] if indices else -1,
        "stats": dict(stats),
        "digests": [hashlib.sha256("".join(digests).encode()).hexdigest()],   # one per batch
        "sigs": {k: sorted(v) for k, v in sigs.items()},
        "known": known_hits, "unknown": unknown, "other": dict(other),
        "samples": samples, "ops": n_ops, "runs": len(digests),  # (evaluated before the dict above replaces the list)
        "census": dict(census), "census_w": census_w,
    }


class _SigHolder(dict):
    pass


def _chunks(n, size):
    return [list(range(a, min(n, a + size))) for a in range(0, n, size)]


def check(prop, tier, seed):
    t0 = time.time()
    sim_name = PROP_SIM[prop]
    sim = get_sim(sim_name)
    if hasattr(sim, "pristine_handler"):
        # for the reporting phase (minimisation re-executes histories in this process)
        core.start_oracle(sim_name, sim.pristine_handler)
    plan = sim.plan(prop, tier)          # list of (stratum, n_runs)
    if core.SCALE != 1:
        plan = [(s, max(1, int(n * core.SCALE))) for s, n in plan]
    workers = core.n_workers()
    results = []
    use_hash_groups = getattr(sim, "hash_seed_groups", None)
    if use_hash_groups:
        results = _run_hash_groups(sim, sim_name, prop, tier, seed, plan, workers)
    else:
        jobs = []
        for stratum, n in plan:
            # the batch partition is fixed per stratum (never depends on the worker count)
            for ch in _chunks(n, sim.batch_size(stratum)):
                jobs.append((sim_name, prop, tier, seed, stratum, ch))
        results = core.run_forked(jobs, workers, run_batch)
    try:
        return _finish(sim, sim_name, prop, tier, seed, plan, results, t0)
    finally:
        core.close_oracles()


def _run_hash_groups(sim, sim_name, prop, tier, seed, plan, workers):
    """Runs whose identity includes PYTHONHASHSEED: one fresh interpreter per
    (hash seed, slice)."""
    groups = sim.hash_seed_groups(prop, tier, seed)
    jobs = []
    for stratum, n in plan:
        size = sim.batch_size(stratum)
        for b, lo in enumerate(range(0, n, size)):
            jobs.append((stratum, lo, min(n, lo + size), groups[b % len(groups)]))
    procs = []
    results = []
    pending = list(jobs)
    running = []
    me = os.path.join(core.VERIF_DIR, "bin", "verif")
    while pending or running:
        while pending and len(running) < workers:
            stratum, lo, hi, hs = pending.pop(0)
            env = dict(os.environ)
            env["PYTHONHASHSEED"] = str(hs)
            env["VERIF_NO_REEXEC"] = "1"
            import tempfile
            tf = tempfile.NamedTemporaryFile(prefix="verif-worker-", suffix=".json",
                                             dir="/dev/shm" if os.path.isdir("/dev/shm") else None)
            p = subprocess.Popen([sys.executable, me, "worker", sim_name, prop, tier,
                                  str(seed), stratum, str(lo), str(hi), str(hs)],
                                 stdout=tf, env=env)
            running.append((p, (stratum, lo, hi, hs), tf))
        still = []
        for p, job, tf in running:
            if p.poll() is None:
                still.append((p, job, tf))
                continue
            tf.seek(0)
            out = tf.read()
            tf.close()
            if p.returncode != 0:
                for q, _, _ in running:
                    if q.poll() is None:
                        q.kill()
                raise HarnessError(f"worker {job} exited {p.returncode}")
            results.append((job, json.loads(out)))
        running = still
        if running:
            time.sleep(0.02)
    results.sort(key=lambda r: (r[0][0], r[0][1]))
    return [r for _, r in results]


def _finish(sim, sim_name, prop, tier, seed, plan, results, t0):
    results.sort(key=lambda r: (r["stratum"], r["first"]))
    stats = Counter()
    sigs = {}
    known_hits = {}
    unknown = []
    other = Counter()
    samples = []
    h = hashlib.sha256()
    n_ops = n_runs = 0
    hash_seeds = set()
    for r in results:
        stats.update(r["stats"])
        for d in r["digests"]:
            h.update(d.encode())
        for k, v in r["sigs"].items():
            sigs.setdefault(k, set()).update(v)
        for kid, ent in r["known"].items():
            e = known_hits.setdefault(kid, {"n": 0, "witness": None})
            e["n"] += ent["n"]
            if e["witness"] is None or (ent["witness"] and len(ent["witness"]) < len(e["witness"])):
                e["witness"] = ent["witness"]
        unknown.extend(r["unknown"])
        other.update(r["other"])
        if len(samples) < 4:
            samples.extend(r["samples"][:1])
        n_ops += r["ops"]
        n_runs += r["runs"]
    if core.CENSUS:
        cen = Counter()
        cw = {}
        for r in results:
            cen.update(r.get("census", {}))
            for k, v in r.get("census_w", {}).items():
                if k not in cw or len(v) < len(cw[k]):
                    cw[k] = v
        print(f"CENSUS over {n_runs} runs, {n_ops} ops:")
        for k, v in cen.most_common():
            print(f"{v:7d}  {k}\n           e.g. {cw[k][:400]}")
        print({k: v for k, v in stats.items() if k.startswith(("fault.", "equiv.", "reparse."))})
        return 0
    known = core.load_known()
    exit_code = 0
    lines = []
    for e in known:
        if e["property"] == prop and e["id"] in known_hits:
            hit = known_hits[e["id"]]
            lines.append(f"KNOWN-FINDING: property={prop} {e['id']}: {e['what']} "
                         f"(n={hit['n']}, e.g. {hit['witness']})")
    reported = []
    seen_keys = set()
    unknown.sort(key=lambda u: (u["cfg"].get("stratum", ""), u["index"], u["op_index"]))
    for u in unknown:
        f = Finding(u["finding"]["property"], u["finding"]["key"], u["finding"]["detail"])
        if f.key_str() in seen_keys:
            continue
        seen_keys.add(f.key_str())
        if len(reported) >= 3:
            continue
        f, path = _report_one(sim, sim_name, prop, tier, seed, u, f)
        reported.append((f, path))
    wall = time.time() - t0
    distinct_name = sim.distinct_measure
    coverage = {
        "evaluations": n_ops,
        "distinct_nontrivial": len(sigs.get(distinct_name, ())),
        "rule": sim.rule_text(prop),
        "samples": samples,
        "runs": n_runs,
        "runs_per_hour": int(n_runs / max(wall, 1e-6) * 3600),
        "ops": n_ops,
        "strata": [{"stratum": s, "runs": n} for s, n in plan],
        "seeds": {"VERIF_SEED": seed, "run_index_ranges": {s: [0, n - 1] for s, n in plan}},
        "hash_seeds": sorted(set(str(x) for x in getattr(sim, "hash_seed_groups", lambda *a: ["0"])(prop, tier, seed))),
        "simulated_time": "not applicable: nothing in mathy_core reads a clock",
        "faults_injected": {k[6:]: v for k, v in sorted(stats.items()) if k.startswith("fault.")},
        "probes": {k[6:]: v for k, v in sorted(stats.items()) if k.startswith("probe.")},
        "probes_at_zero": [p for p in sim.probe_names(prop) if stats.get("probe." + p, 0) == 0],
        "counters": {k: v for k, v in sorted(stats.items())
                     if not k.startswith(("fault.", "probe."))},
        "distinct": {k: len(v) for k, v in sorted(sigs.items())},
        "components": sim.components(prop),
        "known_findings_matched": {k: v["n"] for k, v in sorted(known_hits.items())},
        "other_property_findings": dict(other),
        "event_log_digest": h.hexdigest(),
        "workers": core.n_workers(),
        "repo": core.REPO_DIR,
    }
    core.write_evidence(prop, tier, seed, coverage, wall, len(reported),
                        sim.assumptions(prop))
    for ln in lines:
        print(ln)
    for f, path in reported:
        print(f"violation detail: {f.key_str()} :: {f.detail}")
        print(f"VIOLATION property={prop} replay={path}")
        exit_code = 1
    print(f"{prop} {tier} seed={seed}: runs={n_runs} ops={n_ops} "
          f"distinct[{distinct_name}]={coverage['distinct_nontrivial']} "
          f"known={sum(v['n'] for v in known_hits.values())} violations={len(reported)} "
          f"wall={wall:.1f}s digest={h.hexdigest()[:16]}")
    return exit_code


def _report_one(sim, sim_name, prop, tier, seed, u, f):
    """Minimise, write the replay file, and prove that it reproduces in a fresh
    interpreter.  If the single history does not reproduce on its own, the
    violation depends on process-global state left by earlier runs of the same
    batch: fall back to a batch replay (the exact run sequence of that batch,
    minimised by dropping earlier runs)."""
    reset_seams()
    ops, ok = core.minimise(_Resetting(sim), u["cfg"], u["ops"], f)
    if ok:
        res2 = core.execute_ops(_Resetting(sim), u["cfg"], ops, stop_on=f.key_str())
        for _, f2 in res2.findings:
            if f2.key_str() == f.key_str():
                f = f2
                break
        path = core.write_replay(sim_name, prop, f, seed, u["cfg"].get("stratum", "?"),
                                 u["index"], u["cfg"], ops,
                                 hash_seed=str(u["cfg"].get("hash_seed", "0")))
        if replay_subprocess(path) == 1:
            return f, path
    # batch replay
    indices = list(range(u["batch_first"], u["index"] + 1))

    def write(ind):
        return core.write_replay(sim_name, prop, f, seed, u["stratum"], u["index"], u["cfg"], u["ops"],
                                 hash_seed=str(u.get("hash_seed", "0")),
                                 extra={"mode": "batch", "tier": tier, "batch_indices": ind,
                                        "note": "the violation depends on state left in the process by the "
                                                "earlier runs listed in batch_indices; replay re-executes "
                                                "exactly those runs, in order, in a fresh interpreter"})
    path = write(indices)
    if replay_subprocess(path) != 1:
        raise HarnessError(f"finding {f.key_str()} of run {u['index']} reproduces neither from its own op list "
                           f"nor from its batch history {indices[0]}..{indices[-1]} in a fresh interpreter")
    prelude = indices[:-1]
    tests = 0
    n = 2
    while len(prelude) >= 1 and tests < 40:
        chunk = max(1, len(prelude) // n)
        reduced = False
        i = 0
        while i < len(prelude) and tests < 40:
            cand = prelude[:i] + prelude[i + chunk:]
            tests += 1
            path = write(cand + [indices[-1]])
            if replay_subprocess(path) == 1:
                prelude = cand
                n = max(n - 1, 2)
                reduced = True
            else:
                i += chunk
        if not reduced:
            if chunk == 1:
                break
            n = min(len(prelude), n * 2)
    path = write(prelude + [indices[-1]])
    if replay_subprocess(path) != 1:
        raise HarnessError("minimised batch replay stopped reproducing")
    f = Finding(f.prop, f.key, f.detail + f" [depends on process history: earlier runs {prelude} of the same batch]")
    return f, path


class _Resetting:
    """Wrap a sim so that every re-execution starts from reset seams."""

    def __init__(self, sim):
        self._sim = sim

    def __getattr__(self, name):
        return getattr(self._sim, name)

    def new_world(self, cfg, res):
        reset_seams()
        return self._sim.new_world(cfg, res)


def replay_subprocess(path) -> int:
    with open(path) as f:
        data = json.load(f)
    env = dict(os.environ)
    env["PYTHONHASHSEED"] = str(data.get("hash_seed", "0"))
    env["VERIF_NO_REEXEC"] = "1"
    me = os.path.join(core.VERIF_DIR, "bin", "verif")
    p = subprocess.run([sys.executable, me, "replay-inner", path], env=env,
                       stdout=subprocess.PIPE, stderr=subprocess.PIPE, timeout=600)
    return p.returncode


def replay_inner(path) -> int:
    with open(path) as f:
        data = json.load(f)
    sim = get_sim(data["sim"])
    if hasattr(sim, "pristine_handler"):
        core.start_oracle(data["sim"], sim.pristine_handler)
    if data.get("mode") == "batch":
        out = run_batch(data["sim"], data["property"], data["tier"], data["seed"], data["stratum"],
                        data["batch_indices"], hash_seed=str(data.get("hash_seed", "0")),
                        focus=data["batch_indices"][-1])
        for u in out["unknown"]:
            f = Finding(u["finding"]["property"], u["finding"]["key"], u["finding"]["detail"])
            if f.key_str() == data["key_str"]:
                print(f"violation detail: {f.key_str()} :: {f.detail}")
                print(f"VIOLATION property={data['property']} replay={path}")
                return 1
        print(f"replay of {path}: recorded violation {data['key_str']} not reproduced")
        return 0
    reset_seams()
    res = core.execute_ops(_Resetting(sim), data["config"], data["ops"],
                           stop_on=data["key_str"])
    for i, f in res.findings:
        if f.key_str() == data["key_str"]:
            print(f"violation detail: {f.key_str()} :: {f.detail}")
            print(f"VIOLATION property={data['property']} replay={path}")
            return 1
    print(f"replay of {path}: recorded violation {data['key_str']} not reproduced")
    return 0
