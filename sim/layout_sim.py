"""Layout-session simulation (C18).

State at stake: x, y, offset, level, thread live on the tree nodes and survive
between TreeLayout.layout calls.  World: one tree laid out repeatedly, with
sub-tree layouts, other multipliers and structural edits (rotation, child
swap) in between.  Reference model: the layout of a pristine clone of the
current shape; mirrored pristine clone must give mirrored coordinates; the
tidy-tree invariants are step invariants on every call made."""
from __future__ import annotations

import hashlib

from . import core, gen
from .core import Finding

EPS = 1e-9
MULTS = [1.0, 1.0, 2.0, 0.5, 1.5, 10.0, 40.0, 3.0]

_SHAPES = {0: [None]}


def shapes(n):
    if n not in _SHAPES:
        out = []
        for k in range(n):
            for l in shapes(k):
                for r in shapes(n - 1 - k):
                    out.append([l, r])
        _SHAPES[n] = out
    return _SHAPES[n]


def catalan_cum(max_n):
    out = []
    tot = 0
    for n in range(1, max_n + 1):
        tot += len(shapes(n))
        out.append(tot)
    return out


def shape_by_index(idx, max_n):
    lo = 0
    for n in range(1, max_n + 1):
        c = len(shapes(n))
        if idx < lo + c:
            return shapes(n)[idx - lo]
        lo += c
    raise IndexError(idx)


def random_shape(rng, n, kind):
    """kind: 'any' (one-child nodes allowed) | 'full' (0 or 2 children)."""
    if kind == "full":
        # n forced odd
        leaves = [[None, None]]
        root = leaves[0]
        count = 1
        while count + 2 <= n:
            i = rng.randrange(len(leaves))
            node = leaves.pop(i)
            node[0] = [None, None]
            node[1] = [None, None]
            leaves.append(node[0])
            leaves.append(node[1])
            count += 2
        return root
    root = [None, None]
    count = 1
    slots = [(root, 0), (root, 1)]
    bias = rng.choice([0.5, 0.5, 0.2, 0.8])
    while count < n and slots:
        i = rng.randrange(len(slots))
        node, side = slots.pop(i)
        if rng.random() < 0.15:
            continue   # leave this slot empty for good -> one-child nodes
        child = [None, None]
        node[side] = child
        count += 1
        if rng.random() < bias:
            slots.append((child, 0))
            slots.append((child, 1))
        else:
            slots.append((child, 1))
            slots.append((child, 0))
    return root


def motif_shape(rng, budget):
    """Shapes composed from a few regular motifs (chains, zig-zags, full trees), so
    that coincidences between subtree depths and contours -- which the contour
    threading logic is sensitive to -- are common rather than rare."""
    def chain(k, side):
        s = [None, None]
        cur = s
        for _ in range(k - 1):
            nxt = [None, None]
            cur[side] = nxt
            cur = nxt
        return s

    def zig(k, side):
        s = [None, None]
        cur = s
        for i in range(k - 1):
            nxt = [None, None]
            cur[(side + i) % 2] = nxt
            cur = nxt
        return s

    def full(d):
        return [None, None] if d <= 0 else [full(d - 1), full(d - 1)]

    def make(b):
        if b <= 0:
            return None
        r = rng.random()
        if b == 1 or r < 0.12:
            return [None, None]
        if r < 0.3:
            return chain(rng.randint(2, min(6, b)), rng.randrange(2))
        if r < 0.4:
            return zig(rng.randint(2, min(6, b)), rng.randrange(2))
        if r < 0.52:
            return full(rng.randint(1, 3 if b >= 15 else (2 if b >= 7 else 1)))
        left = make((b - 1) // 2) if rng.random() < 0.9 else None
        right = make((b - 1) // 2) if rng.random() < 0.9 else None
        return [left, right]
    return make(budget) or [None, None]


def shape_of(node):
    if node is None:
        return None
    return [shape_of(node.left), shape_of(node.right)]


def mirror_shape(s):
    if s is None:
        return None
    return [mirror_shape(s[1]), mirror_shape(s[0])]


def build(shape):
    from mathy_core.tree import BinaryTreeNode
    if shape is None:
        return None
    return BinaryTreeNode(build(shape[0]), build(shape[1]))


def shape_size(s):
    return 0 if s is None else 1 + shape_size(s[0]) + shape_size(s[1])


def shape_height(s):
    return 0 if s is None else 1 + max(shape_height(s[0]), shape_height(s[1]))


def is_uneven(s):
    """A one-child node, or a two-child node whose subtrees differ in height."""
    if s is None:
        return False
    if (s[0] is None) != (s[1] is None):
        return True
    if s[0] is not None and shape_height(s[0]) != shape_height(s[1]):
        return True
    return is_uneven(s[0]) or is_uneven(s[1])


def has_one_child(s):
    if s is None:
        return False
    if (s[0] is None) != (s[1] is None):
        return True
    return has_one_child(s[0]) or has_one_child(s[1])


def preorder(root):
    out = []
    stack = [(root, 0)]
    seen = set()
    while stack:
        n, d = stack.pop()
        if n is None or id(n) in seen:
            continue
        seen.add(id(n))
        out.append((n, d))
        stack.append((n.right, d + 1))
        stack.append((n.left, d + 1))
    return out


def coords(root):
    return [(getattr(n, "x", None), getattr(n, "y", None)) for n, _ in preorder(root)]


def mirror_preorder_map(shape):
    """preorder index in shape -> preorder index of the mirrored node in the
    mirrored shape."""
    # label nodes by path
    paths = []

    def walk(s, path):
        if s is None:
            return
        paths.append(path)
        walk(s[0], path + "L")
        walk(s[1], path + "R")
    walk(shape, "")
    mpaths = []

    def walk2(s, path):
        if s is None:
            return
        mpaths.append(path)
        walk2(s[0], path + "L")
        walk2(s[1], path + "R")
    walk2(mirror_shape(shape), "")
    flip = {"L": "R", "R": "L"}
    index = {p: i for i, p in enumerate(mpaths)}
    return [index["".join(flip[c] for c in p)] for p in paths]


def check_invariants(root, ux, uy, meas):
    """Tidy-tree invariants on the coordinates assigned to the tree under
    `root`.  Returns list of (clause, detail)."""
    out = []
    nodes = preorder(root)
    for n, d in nodes:
        if not isinstance(n.x, (int, float)) or not isinstance(n.y, (int, float)):
            out.append(("inv-assigned", f"node at depth {d} has x={n.x!r} y={n.y!r}"))
            return out
    for n, d in nodes:
        if abs(n.y - d * uy) > EPS * max(1.0, abs(d * uy)):
            out.append(("inv-y", f"node at depth {d} has y={n.y} expected {d * uy}"))
            break
    for n, d in nodes:
        if n.left is not None and not n.left.x < n.x:
            out.append(("inv-left", f"left child x={n.left.x} not left of parent x={n.x} (depth {d})"))
            break
    for n, d in nodes:
        if n.right is not None and not n.right.x > n.x:
            out.append(("inv-right", f"right child x={n.right.x} not right of parent x={n.x} (depth {d})"))
            break
    for n, d in nodes:
        if n.left is not None and n.right is not None:
            if abs((n.left.x + n.right.x) / 2 - n.x) > EPS * max(1.0, abs(n.x), ux):
                out.append(("inv-centre", f"parent x={n.x} not centred over children "
                                          f"{n.left.x},{n.right.x} (depth {d})"))
                break
    # level order and separation: in-order traversal gives left-to-right order per level
    levels = {}

    def inorder(n, d):
        stack = []
        cur = (n, d)
        while stack or cur[0] is not None:
            while cur[0] is not None:
                stack.append(cur)
                cur = (cur[0].left, cur[1] + 1)
            m, dd = stack.pop()
            levels.setdefault(dd, []).append(m)
            cur = (m.right, dd + 1)
    inorder(root, 0)
    done = False
    for d in sorted(levels):
        row = levels[d]
        for a, b in zip(row, row[1:]):
            if b.x - a.x < ux * 1.0 - EPS * max(1.0, ux):
                out.append(("inv-sep", f"level {d}: neighbours at x={a.x} and x={b.x} "
                                       f"(need >= {ux} apart, in order)"))
                done = True
                break
        if done:
            break
    xs = [n.x for n, _ in nodes]
    ys = [n.y for n, _ in nodes]
    want = {"minX": min(xs), "maxX": max(xs), "minY": min(ys), "maxY": max(ys),
            "width": max(xs) - min(xs), "height": max(ys) - min(ys)}
    for k, v in want.items():
        got = getattr(meas, k, None)
        if not isinstance(got, (int, float)) or abs(got - v) > EPS * max(1.0, abs(v)):
            out.append(("inv-bounds", f"reported {k}={got!r}, true {v!r}"))
            break
    return out


def tall_shape(rng):
    """Two (or more) long spines hanging from one node: both sibling contours are 40-130
    levels deep, so the contour walk runs far longer than in any bushy tree of the same
    size, and the first collision may lie deep down.  Spines turn at random, carry a few
    small side branches, and may start below a short stem."""
    def spine(depth, turn_p, side, branch_p):
        s = [None, None]
        cur = s
        for _ in range(depth - 1):
            if rng.random() < turn_p:
                side = 1 - side
            nxt = [None, None]
            cur[side] = nxt
            if rng.random() < branch_p:
                cur[1 - side] = rng.choice([[None, None], [[None, None], [None, None]], [[None, None], None]])
            cur = nxt
        return s
    d1 = rng.choice([40, 47, 50, 56, 64, 90, 130])
    d2 = rng.choice([d1, d1 - 1, d1 + 6, 45, 52, 70])
    mode = rng.random()
    if mode < 0.35:      # two straight-ish spines leaning towards each other, colliding far down
        k = rng.randint(0, 8)
        left = spine(d1, 0.0, 0, 0.0)
        cur = left
        for _ in range(d1 - 1 - k):
            cur = cur[0]
        # the left spine turns right for its last k steps, towards the right sibling's contour
        tail = spine(k + 1, 0.0, 1, 0.0)
        cur[0], cur[1] = tail[0], tail[1]
        right = spine(d2, 0.0, 0, 0.0)
    else:
        tp = rng.choice([0.02, 0.1, 0.5])
        bp = rng.choice([0.0, 0.03, 0.1])
        left = spine(d1, tp, rng.randrange(2), bp)
        right = spine(d2, tp, rng.randrange(2), bp)
    shape = [left, right]
    if rng.random() < 0.5:
        shape = mirror_shape(shape)
    for _ in range(rng.choice([0, 0, 1, 3])):
        shape = [shape, None] if rng.random() < 0.5 else [None, shape]
    return shape


class World:
    def __init__(self, cfg, res):
        self.cfg = cfg
        self.res = res
        t = cfg["tree"]
        if t["kind"] == "expr":
            from mathy_core.parser import ExpressionParser
            try:
                self.root = core.bounded_parse(t["text"])
            except Exception:
                self.root = build([None, None])
            # displayed trees are usually rewrite results: they contain clone()d
            # sub-expressions, i.e. several nodes with the same id
            for name, k in t.get("rewrites", []):
                self.root = self._rewrite(self.root, name, k)
        else:
            self.root = build(t["shape"])
        if cfg.get("dup_ids"):
            # ids are not unique in real trees (clone() copies them); label nodes from a small set
            nodes = [n for n, _ in preorder(self.root)]
            for i, n in enumerate(nodes):
                n.id = "dup-%d" % (core.derive("dupid", cfg["dup_ids"], i) % max(1, len(nodes) // 3 + 1))
        # a caller may keep one TreeLayout object for all its calls, or make one per call
        self.shared = None
        if cfg.get("shared_layouter", False):
            from mathy_core.layout import TreeLayout
            self.shared = TreeLayout()
        self.calls = 0
        self.prev = "first"
        self.hist = []
        res.sigs = {"histories": set(), "shapes": set()}

    @staticmethod
    def _rewrite(root, name, k):
        try:
            from . import rewrite_sim
            rule = rewrite_sim.make_rules()[name]
            nodes = rule.find_nodes(root)
            if not nodes:
                return root
            node = nodes[k % len(nodes)]
            out = rule.apply_to(node.clone_from_root()).result
            return out.get_root() if out is not None else root
        except Exception:
            return root

    def apply(self, op):
        from mathy_core.layout import TreeLayout
        st = self.res.stats
        fs = []
        nodes = [n for n, _ in preorder(self.root)]
        kind = op[0]
        if kind in ("grow", "prune"):
            from mathy_core.tree import BinaryTreeNode
            n = nodes[op[1] % len(nodes)]
            if kind == "grow":
                if len(nodes) >= 80:
                    self.res.events.append("grow skip")
                    return fs
                # attach a fresh leaf (or a two-leaf node) in an empty slot of n
                sub = BinaryTreeNode(BinaryTreeNode(), BinaryTreeNode()) if op[2] >= 2 else BinaryTreeNode()
                if n.left is None and (op[2] % 2 == 0 or n.right is not None):
                    n.set_left(sub)
                elif n.right is None:
                    n.set_right(sub)
                else:
                    self.res.events.append("grow skip")
                    return fs
                st["fault.edit_grow_between_layouts"] += 1
            else:
                if n.parent is None or n.left is not None or n.right is not None:
                    self.res.events.append("prune skip")
                    return fs
                if n.parent.left is n:
                    n.parent.set_left(None)
                else:
                    n.parent.set_right(None)
                n.parent = None
                st["fault.edit_prune_between_layouts"] += 1
            self.prev = "edit"
            self.res.events.append(f"{kind} {op[1] % len(nodes)}")
            self.hist.append((kind,))
            return fs
        if kind in ("rotate", "swap"):
            n = nodes[op[1] % len(nodes)]
            if kind == "rotate":
                if n.parent is None:
                    self.res.events.append("rotate skip")
                    return fs
                n.rotate()
                self.root = self.root.get_root()
                st["fault.edit_rotate_between_layouts"] += 1
            else:
                l, r = n.left, n.right
                n.set_left(r)
                n.set_right(l)
                st["fault.edit_swap_between_layouts"] += 1
            self.prev = "edit"
            self.res.events.append(f"{kind} {op[1] % len(nodes)}")
            self.hist.append((kind,))
            return fs
        if kind != "layout":
            raise core.HarnessError(f"unknown op {op!r}")
        idx = op[1] % len(nodes)
        ux, uy = float(op[2]), float(op[3])
        target = nodes[idx]
        is_root = target is self.root
        shape = shape_of(target)
        uneven = "yes" if is_uneven(shape) else "no"
        one = "yes" if has_one_child(shape) else "no"
        after = self.prev if self.calls else "first"
        self.calls += 1
        st["layouts"] += 1
        if not is_root:
            st["fault.sublayout_between_layouts"] += 1
        if after != "first":
            st["probe.layout_on_nodes_with_stale_state"] += 1
            if self.shared is not None:
                st["probe.reused_layout_object"] += 1
        if after == "edit":
            st["probe.layout_after_edit"] += 1
        if after == "sub":
            st["probe.layout_after_sublayout"] += 1
        if uneven == "yes":
            st["probe.uneven_shape"] += 1
        if one == "yes":
            st["probe.one_child_shape"] += 1
        base = {"after": after, "uneven": uneven, "one_child": one}
        # detach view: layout of a subtree is requested on the node itself (it
        # keeps its parent link, as a caller holding a sub-expression would)
        try:
            with core.op_budget(10.0):
                layouter = self.shared if self.shared is not None else TreeLayout()
                meas = layouter.layout(target, ux, uy)
        except core.OpTimeout:
            fs.append(Finding("C18", dict(base, clause="hang"), f"layout did not return ({self._desc(shape)})"))
            return fs
        except Exception as e:  # noqa
            fs.append(Finding("C18", dict(base, clause="error", exc=type(e).__name__),
                              f"layout raised {type(e).__name__}: {str(e)[:60]} ({self._desc(shape)})"))
            self.prev = "root" if is_root else "sub"
            return fs
        got = coords(target)
        for clause, detail in check_invariants(target, ux, uy, meas):
            fs.append(Finding("C18", dict(base, clause=clause), f"{detail}; {self._desc(shape)}"))
        # reference model: pristine clone of the same shape, laid out once
        fresh = build(shape)
        try:
            TreeLayout().layout(fresh, ux, uy)
            ref = coords(fresh)
        except Exception as e:  # noqa
            ref = None
        if ref is not None:
            bad = self._first_diff(got, ref, ux)
            if bad is not None:
                fs.append(Finding("C18", dict(base, clause="repeat"),
                                  f"node #{bad} laid out at {got[bad]} but a pristine tree of the same shape "
                                  f"gives {ref[bad]} (layout call {self.calls}, after {after}); {self._desc(shape)}"))
            # mirror clause on pristine trees
            msh = mirror_shape(shape)
            mfresh = build(msh)
            try:
                TreeLayout().layout(mfresh, ux, uy)
                mref = coords(mfresh)
                mp = mirror_preorder_map(shape)
                for i, (x, y) in enumerate(ref):
                    mx, my = mref[mp[i]]
                    if abs(mx + x) > EPS * max(1.0, abs(x)) or abs(my - y) > EPS * max(1.0, abs(y)):
                        fs.append(Finding("C18", dict(base, clause="mirror"),
                                          f"node #{i} at x={x} but its mirror image at x={mx} in the mirrored tree; "
                                          f"{self._desc(shape)}"))
                        break
            except Exception as e:  # noqa
                fs.append(Finding("C18", dict(base, clause="error", exc=type(e).__name__),
                                  f"layout of mirrored pristine tree raised {type(e).__name__}; {self._desc(msh)}"))
        self.prev = "root" if is_root else "sub"
        hs = hashlib.sha1(repr(shape).encode()).hexdigest()[:12]
        self.res.sigs["shapes"].add(hs)
        self.res.events.append(f"layout {idx} {ux} {uy} -> {hashlib.sha1(repr(got).encode()).hexdigest()[:12]} "
                               f"f={len(fs)}")
        self.hist.append(("layout", hs, is_root, ux, uy, after))
        return fs

    @staticmethod
    def _first_diff(got, ref, ux):
        if len(got) != len(ref):
            return 0
        for i, (a, b) in enumerate(zip(got, ref)):
            for u, v in zip(a, b):
                if u is None or v is None or abs(u - v) > EPS * max(1.0, abs(v)):
                    return i
        return None

    @staticmethod
    def _desc(shape):
        s = repr(shape).replace("None", "_").replace(" ", "")
        return f"shape({shape_size(shape)} nodes)={s[:160]}"

    def finish(self):
        if self.calls >= 2:
            self.res.sigs["histories"].add(hashlib.sha1(repr(self.hist).encode()).hexdigest()[:16])
        return []


class LayoutSim:
    name = "layout"
    distinct_measure = "histories"
    EXH_QUICK = 8
    EXH_THOROUGH = 10

    def plan(self, prop, tier):
        if tier == "quick":
            return [("exhaustive", catalan_cum(self.EXH_QUICK)[-1]), ("sessions", 30000), ("tall", 480)]
        return [("exhaustive", catalan_cum(self.EXH_THOROUGH)[-1]), ("sessions", 1500000), ("tall", 16000)]

    def batch_size(self, stratum):
        return 10 if stratum == "tall" else 250

    def new_world(self, cfg, res):
        return World(cfg, res)

    def draw_config(self, rng, prop, tier, stratum, idx):
        cfg = {"prop": prop, "stratum": stratum}
        if stratum == "exhaustive":
            max_n = self.EXH_QUICK if tier == "quick" else self.EXH_THOROUGH
            shape = shape_by_index(idx, max_n)
            cfg["tree"] = {"kind": "shape", "shape": shape}
            cfg["shared_layouter"] = idx % 3 != 0
            n = shape_size(shape)
            cfg["script"] = [
                ["layout", 0, 1.0, 1.0],
                ["layout", 0, 1.0, 1.0],
                ["layout", rng.randrange(n), 1.0, 1.0],
                ["layout", 0, rng.choice(MULTS), rng.choice(MULTS)],
            ]
            return cfg
        if stratum == "tall":
            # deep trees (80-300 nodes) and marathons: one TreeLayout object kept for
            # hundreds of calls (state that accumulates on the layouter, not on the nodes)
            if rng.random() < 0.8:
                cfg["tree"] = {"kind": "shape", "shape": tall_shape(rng)}
            else:
                cfg["tree"] = {"kind": "shape", "shape": random_shape(rng, rng.choice([31, 63, 127]), "full")}
            marathon = rng.random() < 0.12
            cfg["shared_layouter"] = True if marathon else rng.random() < 0.6
            cfg["n_ops"] = rng.choice([500, 900, 1400]) if marathon else rng.choice([2, 3, 4, 6])
            cfg["sub_range"] = 400
            cfg["w"] = {"root": 6 if marathon else rng.choice([3, 5]), "sub": rng.choice([0, 1, 2]),
                        "edit": rng.choice([0, 0, 1])}
            return cfg
        r = rng.random()
        if r < 0.2:
            cfg["tree"] = {"kind": "shape", "shape": motif_shape(rng, rng.choice([8, 14, 20, 30, 45, 60]))}
        elif r < 0.45:
            n = rng.choice([3, 5, 6, 8, 10, 12, 15, 18, 21, 25, 30, 40, 60])
            cfg["tree"] = {"kind": "shape", "shape": random_shape(rng, n, "any")}
        elif r < 0.75:
            n = rng.choice([3, 5, 7, 9, 11, 13, 15, 17, 21, 25, 31, 41, 63])
            cfg["tree"] = {"kind": "shape", "shape": random_shape(rng, n, "full")}
        else:
            g = {"depth": rng.choice([2, 3, 4]), "space": 1, "floats": False, "eq": True,
                 "fact": True, "sgn": True}
            cfg["tree"] = {"kind": "expr", "text": gen.valid_text(rng, g)}
            if rng.random() < 0.7:
                cfg["tree"]["rewrites"] = [[rng.choice(["DM", "DM", "BM", "MI", "CS", "AG", "DF", "VM", "RS", "CA"]),
                                            rng.randrange(64)] for _ in range(rng.choice([1, 2, 4, 8]))]
        cfg["shared_layouter"] = rng.random() < 0.6
        if rng.random() < 0.3:
            cfg["dup_ids"] = rng.randrange(1, 2 ** 31)
        cfg["n_ops"] = rng.choice([2, 3, 4, 6, 10])
        cfg["w"] = {"root": rng.choice([3, 5]), "sub": rng.choice([0, 1, 2, 3]),
                    "edit": rng.choice([0, 0, 1, 2])}
        return cfg

    def generate(self, rng, cfg, world):
        if "script" in cfg:
            for op in cfg["script"]:
                yield op
            return
        w = cfg["w"]
        kinds = ["root"] * w["root"] + ["sub"] * w["sub"] + ["edit"] * w["edit"]
        yield ["layout", 0, rng.choice(MULTS), rng.choice(MULTS)]
        for _ in range(cfg["n_ops"] - 1):
            k = rng.choice(kinds)
            if k == "root":
                yield ["layout", 0, rng.choice(MULTS), rng.choice(MULTS)]
            elif k == "sub":
                yield ["layout", rng.randrange(1, cfg.get("sub_range", 64)), rng.choice(MULTS), rng.choice(MULTS)]
            else:
                e = rng.choice(["rotate", "rotate", "swap", "grow", "grow", "prune"])
                if e == "grow":
                    yield ["grow", rng.randrange(64), rng.randrange(4)]
                else:
                    yield [e, rng.randrange(64)]
        yield ["layout", 0, rng.choice(MULTS), rng.choice(MULTS)]

    def shrink_ops(self, cfg, ops):
        for i, op in enumerate(ops):
            if op[0] == "layout" and (op[2] != 1.0 or op[3] != 1.0):
                yield ops[:i] + [["layout", op[1], 1.0, 1.0]] + ops[i + 1:]

    def rule_text(self, prop):
        return ("Seeded sessions of TreeLayout.layout calls on one tree whose nodes keep x/y/offset/level/thread "
                "between calls: root layouts, sub-tree layouts, other unit multipliers, rotations and child swaps "
                "in between; strata: every shape up to the bound as session start (exhaustive), random shapes "
                "with one-child nodes, random full binary trees, parsed expression trees. After every call the "
                "coordinates are compared with a pristine clone's layout, the mirrored pristine clone, and the "
                "tidy invariants. distinct_nontrivial = distinct histories of (shape hash, root/sub, multipliers, "
                "what preceded) with at least two layout calls on the same nodes.")

    def probe_names(self, prop):
        return ["layout_on_nodes_with_stale_state", "reused_layout_object", "layout_after_edit", "layout_after_sublayout",
                "uneven_shape", "one_child_shape"]

    def components(self, prop):
        return {
            "real": ["mathy_core.layout.TreeLayout (measure, transform)", "mathy_core.tree.BinaryTreeNode",
                     "mathy_core.parser (expression-shaped strata)"],
            "simulated": ["caller issuing layout calls / edits in seeded order, keeping one TreeLayout object "
                          "or making one per call"],
            "reference_models": ["TreeLayout on a pristine clone of the current shape (real code, fresh nodes)",
                                 "own tidy-invariant checker", "own mirror map"],
            "stubbed": [],
        }

    def assumptions(self, prop):
        return ["unit multipliers are positive", "shapes <= 63 nodes in random strata, 80-300 nodes (spines of 40-130 levels) in the "
                "tall stratum, whose marathon sessions keep one TreeLayout object for 500-1400 calls; exhaustive strata bounded "
                "by node count (7 quick, 10 thorough)",
                "the pristine-clone layout is the meaning of 'depends only on the shape'"]


SIM = LayoutSim()
