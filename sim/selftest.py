"""Development self-tests (not registered as checks):

  bin/verif selftest determinism [props...] [--seeds N]
      every simulation, N seeds, each executed in fresh interpreters with
      harness hash seeds 0 and 1 and with 1 and 16 workers; the event-log
      digests must be pairwise identical.

  bin/verif selftest sensitivity [ids...] [--tests]
      apply each catalogue mutant to a scratch copy of /repo under /dev/shm,
      point the quick check at it (VERIF_REPO) and expect VIOLATION (or, for
      controls, silence); --tests also runs the repo's own suite on the
      mutated copy to confirm it stays green.

  bin/verif selftest seeded [ids...]
      same for the independently written changes kept under /verif/seeded/.
"""
from __future__ import annotations

import json
import os
import re
import shutil
import subprocess
import sys
import time

from . import core

ME = os.path.join(core.VERIF_DIR, "bin", "verif")
PROPS = ["C04", "C09", "C10", "C12", "C17", "C18"]


def _run_check(prop, seed, env_extra, scale="0.05", tier="quick", timeout=1800):
    env = dict(os.environ)
    env.pop("VERIF_NO_REEXEC", None)
    env.pop("PYTHONHASHSEED", None)
    env["VERIF_SEED"] = str(seed)
    env["VERIF_SCALE"] = scale
    env.update(env_extra)
    p = subprocess.run([sys.executable, ME, "check", prop, "--tier", tier], env=env,
                       stdout=subprocess.PIPE, stderr=subprocess.STDOUT, text=True, timeout=timeout)
    return p.returncode, p.stdout


def determinism(args):
    n = 20
    if "--seeds" in args:
        i = args.index("--seeds")
        n = int(args[i + 1])
        args = args[:i] + args[i + 2:]
    props = [a for a in args if a in PROPS] or PROPS
    out_dir = "/dev/shm/verif-selftest-out"
    bad = 0
    total = 0
    for prop in props:
        for seed in range(1000, 1000 + n):
            digs = []
            for hs, workers in (("0", "16"), ("1", "16"), ("0", "1"), ("1", "3")):
                rc, out = _run_check(prop, seed, {"VERIF_HARNESS_HASHSEED": hs, "VERIF_WORKERS": workers,
                                                  "VERIF_OUT": out_dir}, scale="0.02")
                m = re.search(r"digest=([0-9a-f]+)", out)
                digs.append((rc, m.group(1) if m else None))
            total += 1
            if len(set(digs)) != 1 or digs[0][1] is None:
                bad += 1
                print(f"NONDETERMINISM {prop} seed={seed}: {digs}")
        print(f"determinism {prop}: {n} seeds x 4 configurations done, bad so far {bad}")
    shutil.rmtree(out_dir, ignore_errors=True)
    print(f"determinism: {total} (property, seed) pairs, {bad} divergent")
    return 1 if bad else 0


def _scratch_copy(tag):
    d = f"/dev/shm/verif-mut-{tag}-{os.getpid()}"
    shutil.rmtree(d, ignore_errors=True)
    os.makedirs(d)
    for name in ("mathy_core", "tests", "website", "setup.py", "setup.cfg", "requirements.txt", "README.md"):
        src = os.path.join(core.REPO_DIR, name)
        if os.path.isdir(src):
            shutil.copytree(src, os.path.join(d, name), ignore=shutil.ignore_patterns("__pycache__", "node_modules"))
        elif os.path.exists(src):
            shutil.copy(src, os.path.join(d, name))
    return d


def _suite_green(d):
    env = dict(os.environ)
    env["PYTHONPATH"] = d
    env["PYTHONDONTWRITEBYTECODE"] = "1"
    p = subprocess.run([sys.executable, "-m", "pytest", "-q", "-p", "no:cacheprovider", "-x",
                        "--timeout=900"], cwd=d, env=env, stdout=subprocess.PIPE,
                       stderr=subprocess.STDOUT, text=True, timeout=1200)
    tail = p.stdout.strip().splitlines()[-1] if p.stdout.strip() else ""
    return p.returncode == 0, tail


def sensitivity(args):
    sys.path.insert(0, os.path.join(core.VERIF_DIR, "mutants"))
    import catalog
    run_tests = "--tests" in args
    ids = [a for a in args if not a.startswith("--")]
    rows = []
    failures = 0
    for mid, prop, rel, old, new, note in catalog.MUTANTS:
        if ids and mid not in ids:
            continue
        d = _scratch_copy(mid)
        try:
            path = os.path.join(d, rel)
            src = open(path).read()
            if old not in src:
                rows.append((mid, prop, "STALE (pattern not found)"))
                failures += 1
                continue
            open(path, "w").write(src.replace(old, new, 1))
            green = None
            if run_tests:
                green, tail = _suite_green(d)
            t0 = time.time()
            rc, out = _run_check(prop, 0, {"VERIF_REPO": d, "VERIF_OUT": d + "/out"}, scale="1")
            dt = time.time() - t0
            viol = [ln for ln in out.splitlines() if ln.startswith("violation detail")]
            expect_quiet = mid in catalog.CONTROLS
            ok = (rc == 0) if expect_quiet else (rc == 1)
            if not ok:
                failures += 1
            rows.append((mid, prop, f"{'ok' if ok else 'UNEXPECTED'} rc={rc} "
                         f"{'(control: quiet)' if expect_quiet else ''} suite={'green' if green else ('n/a' if green is None else 'RED')} "
                         f"{dt:.0f}s :: {(viol[0][:200] if viol else out.strip().splitlines()[-1][:200])}"))
        finally:
            shutil.rmtree(d, ignore_errors=True)
    for r in rows:
        print("%-34s %-4s %s" % r)
    print(f"sensitivity: {len(rows)} mutants, {failures} unexpected")
    return 1 if failures else 0


def seeded(args):
    base = os.path.join(core.VERIF_DIR, "seeded")
    ids = [a for a in args if not a.startswith("--")]
    rows = []
    failures = 0
    for sid in sorted(os.listdir(base)) if os.path.isdir(base) else []:
        if ids and sid not in ids:
            continue
        meta_p = os.path.join(base, sid, "meta.json")
        patch_p = os.path.join(base, sid, "patch.diff")
        if not (os.path.exists(meta_p) and os.path.exists(patch_p)):
            continue
        meta = json.load(open(meta_p))
        d = _scratch_copy(sid)
        try:
            p = subprocess.run(["patch", "-p1", "-s", "-i", patch_p], cwd=d, stdout=subprocess.PIPE,
                               stderr=subprocess.STDOUT, text=True)
            if p.returncode != 0:
                rows.append((sid, meta.get("property"), "patch does not apply: " + p.stdout[:100]))
                failures += 1
                continue
            for prop in meta.get("checks", [meta["property"]]):
                t0 = time.time()
                tier = "thorough" if "--thorough" in args else "quick"
                rc, out = _run_check(prop, 0, {"VERIF_REPO": d, "VERIF_OUT": d + "/out"}, scale="1",
                                     tier=tier, timeout=7200)
                viol = [ln for ln in out.splitlines() if ln.startswith("violation detail")]
                rows.append((sid, prop, f"rc={rc} {time.time() - t0:.0f}s :: "
                             f"{(viol[0][:220] if viol else out.strip().splitlines()[-1][:220])}"))
                if rc != 1 and meta.get("expected", "caught") == "caught":
                    failures += 1
        finally:
            shutil.rmtree(d, ignore_errors=True)
    for r in rows:
        print("%-28s %-4s %s" % r)
    print(f"seeded: {len(rows)} runs, {failures} not caught")
    return 1 if failures else 0


def refactors(args):
    """Behaviour-preserving changes (written independently): every check must stay quiet."""
    base = os.path.join(core.VERIF_DIR, "refactors")
    ids = [a for a in args if not a.startswith("--")]
    rows = []
    failures = 0
    for rid in sorted(os.listdir(base)) if os.path.isdir(base) else []:
        if ids and rid not in ids:
            continue
        patch_p = os.path.join(base, rid, "patch.diff")
        d = _scratch_copy(rid)
        try:
            p = subprocess.run(["patch", "-p1", "-s", "-i", patch_p], cwd=d, stdout=subprocess.PIPE,
                               stderr=subprocess.STDOUT, text=True)
            if p.returncode != 0:
                rows.append((rid, "-", "patch does not apply: " + p.stdout[:100]))
                continue
            for prop in PROPS:
                t0 = time.time()
                rc, out = _run_check(prop, 0, {"VERIF_REPO": d, "VERIF_OUT": d + "/out"},
                                     scale=os.environ.get("VERIF_RF_SCALE", "1"))
                viol = [ln for ln in out.splitlines() if ln.startswith("violation detail")]
                ok = rc == 0
                if not ok:
                    failures += 1
                rows.append((rid, prop, f"{'quiet' if ok else 'ALARM/ERROR'} rc={rc} {time.time() - t0:.0f}s :: "
                             f"{(viol[0][:260] if viol else out.strip().splitlines()[-1][:160])}"))
        finally:
            shutil.rmtree(d, ignore_errors=True)
    for r in rows:
        print("%-12s %-4s %s" % r)
    print(f"refactors: {len(rows)} runs, {failures} alarms")
    return 1 if failures else 0


def main(args):
    if not args:
        print(__doc__)
        return 2
    if args[0] == "determinism":
        return determinism(args[1:])
    if args[0] == "sensitivity":
        return sensitivity(args[1:])
    if args[0] == "seeded":
        return seeded(args[1:])
    if args[0] == "refactors":
        return refactors(args[1:])
    print(__doc__)
    return 2
