"""Problem-generator simulation (C17).

Seams owned by the simulator: (a) the process-global `random` stream all
generators share (seeded once per session, never re-seeded), (b)
PYTHONHASHSEED (sessions run in interpreters started under explicit hash
seeds; the value is part of the run identity), (c) the module-global
`_pretty_numbers` switch, toggled between calls.  Fault kinds: pretty-mode
toggles between calls, never re-seeding, hash-seed variation, and (reach only)
a simulator-owned biased stream."""
from __future__ import annotations

import hashlib
import math
import random as _random
import re

from . import core, trees
from .core import Finding

LETTERS = list("abcdfghjklmnopqrstuvwxyz")   # the documented 24-letter alphabet
PROMISE = {"gen_combine_terms_in_place", "gen_commute_haystack",
           "gen_move_around_blockers_one", "gen_move_around_blockers_two"}
OP_BUDGET_S = 10.0


class BiasedRandom(_random.Random):
    """A random.Random whose primitive draws are sometimes extreme or repeated.
    Every finite draw sequence is produced by some Mersenne-Twister state, so
    this stays inside 'for every seed' in spirit; used for reach only."""

    def __init__(self, seed, rate):
        super().__init__(seed)
        self._bias = _random.Random(seed ^ 0x5DEECE66D)
        self._rate = rate
        self._last = 0.5
        self.fired = 0
        # "stuck" stretches: for a while every integer draw comes from a tiny set,
        # which starves rejection/collection loops and pushes them into their fallbacks
        self._stuck_left = 0
        self._stuck_vals = (0,)
        # 32-bit words handed out so far.  The Mersenne Twister is equidistributed in 623
        # dimensions at 32-bit accuracy: every sequence of fewer than 624 words is produced
        # by some generator state, i.e. a call that consumed fewer words than that saw a
        # draw sequence some seed really produces.
        self.words = 0

    def __getattr__(self, name):
        # this object stands in for the `random` *module* inside mathy_core.problems:
        # anything a module offers beyond the Random methods (random.Random, SystemRandom, ...)
        # is served by the real module
        return getattr(_random, name)

    def random(self):
        self.words += 2
        b = self._bias.random()
        if b < self._rate:
            self.fired += 1
            k = self._bias.randrange(4)
            if k == 0:
                return 0.0
            if k == 1:
                return 1.0 - 2 ** -53
            if k == 2:
                return self._last
            return 0.5
        v = super().random()
        self._last = v
        return v

    def getrandbits(self, k):
        self.words += (k + 31) // 32
        if self._stuck_left > 0 and k > 0:
            self._stuck_left -= 1
            self.fired += 1
            return self._bias.choice(self._stuck_vals) & ((1 << k) - 1)
        b = self._bias.random()
        if b < self._rate / 20 and k > 0:
            self._stuck_left = self._bias.choice([20, 60, 350, 1200])
            self._stuck_vals = tuple(self._bias.randrange(32) for _ in range(self._bias.choice([1, 2, 3])))
        if b < self._rate and k > 0:
            self.fired += 1
            c = self._bias.randrange(3)
            if c == 0:
                return 0
            if c == 1:
                return (1 << k) - 1
            return super().getrandbits(k)
        return super().getrandbits(k)

    # force randrange/randint/shuffle/choice through getrandbits
    def _randbelow(self, n):
        if n <= 0:
            return 0
        k = n.bit_length()
        if self._stuck_left <= 0 and self._bias.random() < self._rate / 2:
            # special values of the range: both ends and the middle (0 and +-1 of symmetric ranges)
            self.words += (k + 31) // 32
            self.fired += 1
            return min(n - 1, max(0, self._bias.choice([0, 1, n - 1, n - 2, n // 2, n // 2 - 1, n // 2 + 1])))
        r = self.getrandbits(k)
        while r >= n:
            self.words += (k + 31) // 32
            r = super().getrandbits(k)
        return r


def fail_bound(n, excluded, pool=24):
    """Upper bound on the chance that rejection sampling with a 10n+1 budget
    fails to collect n distinct allowed letters (fair stream)."""
    a = pool - excluded
    if n <= 0:
        return 0.0
    if n > a:
        return 1.0
    p = (pool - a + n - 1) / pool
    return min(1.0, math.comb(a, n - 1) * p ** (10 * n + 1))


# --------------------------------------------------------------------------
# independent like-term detector


def _flatten_add(node, out):
    from mathy_core import expressions as E
    if isinstance(node, (E.AddExpression, E.SubtractExpression)):
        _flatten_add(node.left, out)
        _flatten_add(node.right, out)
    else:
        out.append(node)


def _mono_key(node):
    from mathy_core import expressions as E
    if isinstance(node, E.NegateExpression):
        node = node.get_child()
    if isinstance(node, E.MultiplyExpression) and isinstance(node.left, E.ConstantExpression):
        node = node.right
    if isinstance(node, E.VariableExpression):
        return (node.identifier, 1)
    if isinstance(node, E.PowerExpression) and isinstance(node.left, E.VariableExpression) \
            and isinstance(node.right, E.ConstantExpression):
        return (node.left.identifier, node.right.value)
    return None


def like_pair_tree(root):
    addends = []
    _flatten_add(root, addends)
    seen = set()
    for a in addends:
        k = _mono_key(a)
        if k is None:
            continue
        if k in seen:
            return True
        seen.add(k)
    return False


_TERM = re.compile(r"^\s*-?[\d.]*([a-zA-Z])(?:\^(-?[\d.]+))?\s*$")


def like_pair_text(text):
    parts = re.split(r" [+-] ", text.replace("(", " ").replace(")", " "))
    seen = set()
    for p in parts:
        m = _TERM.match(p)
        if not m:
            continue
        k = (m.group(1), float(m.group(2)) if m.group(2) else 1.0)
        if k in seen:
            return True
        seen.add(k)
    return False


# --------------------------------------------------------------------------


class World:
    def __init__(self, cfg, res):
        from mathy_core import problems
        self.cfg = cfg
        self.res = res
        self.problems = problems
        self.pretty = bool(cfg.get("pretty0", True))
        problems.use_pretty_numbers(self.pretty)
        if cfg.get("bias_rate", 0) > 0:
            self.stream = BiasedRandom(cfg["rseed"], cfg["bias_rate"])
            problems.random = self.stream
            self.biased = True
        else:
            _random.seed(cfg["rseed"])
            problems.random = _random
            self.stream = None
            self.biased = False
        self.templates = []
        self.last_words = 0
        self.hist = []
        self.calls = 0
        self.toggles = 0
        res.sigs = {"sessions": set(), "outputs": set()}

    def apply(self, op):
        st = self.res.stats
        P = self.problems
        fs = []
        if op[0] == "pretty":
            P.use_pretty_numbers(bool(op[1]))
            self.pretty = bool(op[1])
            st["fault.pretty_mode_toggle"] += 1
            self.toggles += 1
            self.res.events.append(f"pretty {op[1]}")
            self.hist.append(("pretty", op[1]))
            return fs
        if op[0] != "call":
            raise core.HarnessError(f"unknown op {op!r}")
        name, kwargs = op[1], dict(op[2])
        fn = getattr(P, name, None)
        if fn is None:
            raise core.HarnessError(f"generator {name} not found")
        if name == "get_rand_term_templates" and kwargs.pop("exclude_prev", False):
            kwargs["exclude_like"] = list(self.templates[-4:])
        if self.calls > 0:
            st["probe.call_on_shared_unreseeded_stream"] += 1
        self.calls += 1
        st["calls." + name] += 1
        mode = "pretty" if self.pretty else "plain"
        st["mode." + mode] += 1
        if self.biased:
            st["fault.biased_stream_session_call"] += 1
        before = self.stream.fired if self.stream else 0
        words0 = self.stream.words if self.stream else 0
        try:
            with core.op_budget(OP_BUDGET_S):
                out = fn(**kwargs)
            exc = None
        except core.OpTimeout:
            fs.append(Finding("C17", {"clause": "hang", "gen": name}, f"{name}({kwargs}) did not return"))
            return fs
        except Exception as e:  # noqa
            out, exc = None, e
        self.last_words = (self.stream.words - words0) if self.stream else 0
        if self.stream:
            fired = self.stream.fired - before
            if fired:
                st["fault.biased_draws"] += fired
        fs.extend(self._judge(name, kwargs, out, exc, mode))
        o = "exc:" + type(exc).__name__ if exc is not None else hashlib.sha1(repr(out).encode()).hexdigest()[:12]
        self.res.events.append(f"{name} {sorted(kwargs.items())!r} [{mode}] -> {o}")
        self.hist.append((name, mode, "exc" if exc else "ok"))
        if exc is None:
            self.res.sigs["outputs"].add(o)
        return fs

    # ------------------------------------------------------------------
    def _judge(self, name, kwargs, out, exc, mode):
        from mathy_core.parser import ExpressionParser
        st = self.res.stats
        key = {"gen": name, "mode": mode}
        call = f"{name}({', '.join(f'{k}={v!r}' for k, v in sorted(kwargs.items()))}) [{mode}, rseed={self.cfg['rseed']}, hashseed={self.cfg.get('hash_seed')}]"
        expect_error = self._documented_error(name, kwargs)
        if expect_error:
            st["probe.documented_error_request"] += 1
            if exc is None or not isinstance(exc, ValueError):
                return [Finding("C17", dict(key, clause="documented-error"),
                                f"{call} should raise ValueError, got {type(exc).__name__ if exc else 'a result'}")]
            return []
        if exc is not None:
            msg = str(exc)
            if name == "get_rand_vars" and isinstance(exc, ValueError) and "Unable to fulfill" in msg:
                st["probe.direct_get_rand_vars_gave_up"] += 1
                n = kwargs.get("num_vars", 0)
                ex = kwargs.get("exclude_vars") or []
                pool = 3 if kwargs.get("common_variables") else 24
                allowed = pool - len([v for v in set(ex) if (v in "xyz" if pool == 3 else v in LETTERS)])
                if n > allowed:
                    return []
                if self.biased and self.last_words >= 600:
                    st["probe.retry_exhausted_under_biased_stream"] += 1
                    return []
                return [Finding("C17", dict(key, clause="gave-up-satisfiable"),
                                f"{call} raised '{msg[:60]}' although {allowed} variables were available")]
            if name == "get_rand_term_templates" and isinstance(exc, EnvironmentError):
                st["probe.templates_gave_up"] += 1
                return []
            if self.biased and "Unable to fulfill" in msg and self.last_words >= 600:
                # a long biased draw sequence may not be producible by any seed: reach only
                st["probe.retry_exhausted_under_biased_stream"] += 1
                return []
            return [Finding("C17", dict(key, clause="raised", exc=type(exc).__name__,
                                        msg=re.sub(r"\d+", "N", msg)[:40]),
                            f"{call} raised {type(exc).__name__}: {msg[:80]}")]
        fs = []
        if name.startswith("gen_"):
            if not (isinstance(out, tuple) and len(out) == 2 and isinstance(out[0], str)):
                return [Finding("C17", dict(key, clause="shape"), f"{call} returned {out!r}")]
            text, cx = out
            import numbers
            if isinstance(cx, bool) or not isinstance(cx, numbers.Real) or not cx > 0:
                fs.append(Finding("C17", dict(key, clause="complexity"),
                                  f"{call} returned complexity {cx!r} for {text!r}"))
            try:
                tree = core.bounded_parse(text)
            except Exception as e:  # noqa
                fs.append(Finding("C17", dict(key, clause="unparseable", exc=type(e).__name__),
                                  f"{call} returned {text!r}, which the parser rejects ({type(e).__name__})"))
                return fs
            self._probe_text(name, text)
            if name in PROMISE:
                a = like_pair_tree(tree)
                b = like_pair_text(text)
                if a != b:
                    st["diag.like_detectors_disagree"] += 1
                if not a and not b:
                    fs.append(Finding("C17", dict(key, clause="no-like-terms"),
                                      f"{call} returned {text!r} without a pair of like terms"))
                try:
                    from mathy_core.util import has_like_terms
                    if not has_like_terms(tree):
                        st["diag.util_has_like_terms_says_no"] += 1
                except Exception:
                    st["diag.util_has_like_terms_raised"] += 1
            return fs
        if name == "get_rand_vars":
            n = kwargs.get("num_vars", 0)
            ex = set(kwargs.get("exclude_vars") or [])
            ok = (isinstance(out, list) and len(out) == n and len(set(out)) == len(out)
                  and all(isinstance(v, str) and len(v) == 1 for v in out))
            if not ok:
                fs.append(Finding("C17", dict(key, clause="vars-distinct"),
                                  f"{call} returned {out!r}"))
            elif ex & set(out):
                fs.append(Finding("C17", dict(key, clause="vars-exclusion"),
                                  f"{call} returned excluded variable(s) {sorted(ex & set(out))}: {out!r}"))
            return fs
        if name == "get_rand_term_templates":
            # exercised as a stream-sharing call; C17 states nothing about it,
            # so what it returns is counted, never judged
            if isinstance(out, list):
                keys = [(t.variable, t.exponent) for t in out]
                if len(set(keys)) != len(keys):
                    st["diag.templates_numerically_equal"] += 1
                self.templates.extend(out)
            return fs
        if name == "split_in_two_random":
            v = kwargs["value"]
            ok = (isinstance(out, tuple) and len(out) == 2 and all(isinstance(x, int) for x in out)
                  and out[0] <= out[1] and out[0] + out[1] == v)
            if not ok:
                fs.append(Finding("C17", dict(key, clause="split"), f"{call} returned {out!r}"))
            return fs
        return fs

    def _documented_error(self, name, kwargs):
        if name == "gen_simplify_multiple_terms" and kwargs.get("num_terms", 2) < 2:
            return True
        if name == "get_rand_vars" and kwargs.get("num_vars", 0) > 25:
            return True
        return False

    def _probe_text(self, name, text):
        st = self.res.stats
        if text.startswith("("):
            st["probe.group_opens_at_first_term"] += 1
        if "(" in text:
            st["probe.grouping_parenthesis"] += 1
        if re.search(r"(^|[ (])-\d", text):
            st["probe.negative_coefficient"] += 1
        if re.search(r"\d\.\d", text):
            st["probe.decimal_coefficient"] += 1
        if "^" in text:
            st["probe.power_emitted"] += 1
        if " * " in text or " - " in text:
            st["probe.non_plus_operator"] += 1

    def finish(self):
        if self.calls >= 2:
            self.res.sigs["sessions"].add(hashlib.sha1(repr((self.hist, self.cfg["rseed"])).encode()).hexdigest()[:16])
        return []


def _prob(rng):
    r = rng.random()
    if r < 0.15:
        return 0.0
    if r < 0.3:
        return 1.0
    return round(rng.random(), 2)


class ProblemsSim:
    name = "problems"
    distinct_measure = "sessions"

    def plan(self, prop, tier):
        return [("sessions", 48000 if tier == "quick" else 3000000)]

    def hash_seed_groups(self, prop, tier, seed):
        n = 8 if tier == "quick" else 64
        # hash seeds derived from the run seed; 0 always included
        out = [0]
        i = 0
        while len(out) < n:
            v = core.derive("hashseed", seed, i) % 4294967295
            i += 1
            if v not in out:
                out.append(v)
        return out

    def batch_size(self, stratum):
        return 1000

    def new_world(self, cfg, res):
        return World(cfg, res)

    def draw_config(self, rng, prop, tier, stratum, idx):
        return {
            "prop": prop, "stratum": stratum,
            "rseed": rng.randrange(2 ** 32),
            "pretty0": rng.random() < 0.5,
            "bias_rate": rng.choice([0, 0, 0, 0.02, 0.1]),
            "n_ops": rng.choice([1, 2, 4, 8, 16]),
            "toggle_p": rng.choice([0.0, 0.1, 0.3]),
            "focus": rng.choice([None, None, "gen_simplify_multiple_terms", "gen_combine_terms_in_place",
                                 "gen_commute_haystack", "blockers", "binomials", "helpers"]),
        }

    # ------------------------------------------------------------------
    def generate(self, rng, cfg, world):
        for _ in range(cfg["n_ops"]):
            if rng.random() < cfg["toggle_p"]:
                yield ["pretty", rng.random() < 0.5]
            yield self._call(rng, cfg)

    def _call(self, rng, cfg):
        focus = cfg["focus"]
        names = ["gen_binomial_times_binomial", "gen_binomial_times_monomial",
                 "gen_simplify_multiple_terms", "gen_simplify_multiple_terms",
                 "gen_combine_terms_in_place", "gen_commute_haystack",
                 "gen_move_around_blockers_one", "gen_move_around_blockers_two",
                 "get_rand_vars", "get_rand_term_templates", "split_in_two_random", "rand_number"]
        if focus == "blockers":
            names = ["gen_move_around_blockers_one", "gen_move_around_blockers_two"]
        elif focus == "binomials":
            names = ["gen_binomial_times_binomial", "gen_binomial_times_monomial"]
        elif focus == "helpers":
            names = ["get_rand_vars", "get_rand_term_templates", "split_in_two_random", "rand_number"]
        elif focus is not None and rng.random() < 0.8:
            names = [focus]
        name = rng.choice(names)
        return ["call", name, self._params(rng, name)]

    def _params(self, rng, name):
        kw = {}
        if name in ("gen_binomial_times_binomial", "gen_binomial_times_monomial"):
            slots = 4 if name.endswith("binomial") else 3
            if rng.random() < 0.3:
                return kw     # pure defaults
            lo = rng.randint(1, 2)
            kw["min_vars"] = lo
            kw["max_vars"] = rng.randint(lo, slots)
            kw["simple_variables"] = rng.random() < 0.5
            kw["powers_probability"] = _prob(rng)
            kw["like_variables_probability"] = _prob(rng)
            return kw
        if name == "gen_simplify_multiple_terms":
            r = rng.random()
            if r < 0.03:
                kw["num_terms"] = rng.choice([1, 0, -1])       # documented error
                return kw
            kw["num_terms"] = rng.choice([2, 2, 3, 3, 4, 5, 6, 7, 8, 10, 12, 16])
            if rng.random() < 0.3:
                return kw
            kw["optional_var"] = rng.random() < 0.4
            kw["op"] = rng.choice([None, None, "+", "-", "*", ["+", "-"], ["+"], ["+", "-", "*"]])
            kw["inner_terms_scaling"] = rng.choice([0.1, 0.2, 0.3, 0.3, 0.45, 0.6])
            for p in ("powers_probability", "optional_var_probability", "noise_probability",
                      "shuffle_probability", "share_var_probability", "grouping_noise_probability"):
                if rng.random() < 0.7:
                    kw[p] = _prob(rng)
            if rng.random() < 0.4:
                kw["noise_terms"] = rng.choice([0, 1, 2, 3, 5])
                if rng.random() < 0.25:
                    # at and just below the capacity of the 24-letter alphabet
                    like = 1 if kw["num_terms"] == 2 else max(2, int(kw["num_terms"] * kw.get("inner_terms_scaling", 0.3)))
                    kw["noise_terms"] = max(0, 24 - like - rng.choice([0, 0, 1, 2]))
            return kw
        if name == "gen_combine_terms_in_place":
            r = rng.random()
            if r < 0.3:
                return kw       # documented defaults (16..26)
            if r < 0.4:
                kw["easy"] = rng.random() < 0.5
                kw["powers"] = rng.random() < 0.5
                return kw
            lo = rng.choice([2, 3, 4, 6, 10, 16, 20])
            kw["min_terms"] = lo
            kw["max_terms"] = rng.choice([lo, lo + 1, lo + 3, min(25, lo + 8), 25])
            if kw["max_terms"] < lo:
                kw["max_terms"] = lo
            kw["easy"] = rng.random() < 0.5
            kw["powers"] = rng.random() < 0.5
            return kw
        if name == "gen_commute_haystack":
            if rng.random() < 0.3:
                return kw
            lo = rng.choice([3, 4, 5, 8])
            kw["min_terms"] = lo
            kw["max_terms"] = lo + rng.choice([0, 1, 3, 6])
            kw["commute_blockers"] = rng.choice([1, 1, 2, 3, 4])
            kw["easy"] = rng.random() < 0.5
            kw["powers"] = rng.random() < 0.5
            return kw
        if name in ("gen_move_around_blockers_one", "gen_move_around_blockers_two"):
            kw["number_blockers"] = rng.choice([1, 1, 2, 3, 4, 6, 8])
            if rng.random() < 0.6:
                kw["powers_probability"] = _prob(rng)
            return kw
        if name == "get_rand_vars":
            r = rng.random()
            if r < 0.05:
                kw["num_vars"] = rng.choice([26, 30, 100])
                return kw
            if r < 0.2:
                kw["common_variables"] = True
                kw["num_vars"] = rng.randint(0, 3)
                kw["exclude_vars"] = sorted(rng.sample(list("xyz") + LETTERS, rng.randint(0, 2)))
                return kw
            ex = rng.sample(LETTERS, rng.choice([0, 0, 1, 2, 4, 8, 12]))
            # direct calls stay where a fair rejection sampler practically always succeeds
            n = rng.choice([0, 1, 2, 3, 5, 8, 10])
            while fail_bound(n, len(ex)) > 1e-9 and n > 0:
                n -= 1
            kw["num_vars"] = n
            if ex or rng.random() < 0.5:
                kw["exclude_vars"] = sorted(ex)
            return kw
        if name == "get_rand_term_templates":
            kw["num_templates"] = rng.randint(1, 6)
            if rng.random() < 0.5:
                kw["exclude_prev"] = True
            if rng.random() < 0.3:
                kw["common_variables"] = True
            if rng.random() < 0.6:
                kw["exponent_probability"] = _prob(rng)
            return kw
        if name == "split_in_two_random":
            kw["value"] = rng.choice([0, 1, 2, 3, 5, 8, 13, 22, 50])
            return kw
        return kw

    def shrink_ops(self, cfg, ops):
        for i, op in enumerate(ops):
            if op[0] == "call" and op[2]:
                for k in sorted(op[2]):
                    kw = dict(op[2])
                    del kw[k]
                    yield ops[:i] + [["call", op[1], kw]] + ops[i + 1:]

    def rule_text(self, prop):
        return ("Seeded sessions (<= 16 calls) of problem-generator calls on one shared random stream seeded once, "
                "inside interpreters started under explicit PYTHONHASHSEED values, with the pretty-number switch "
                "toggled between calls; parameters drawn from the documented ranges (defaults, probabilities in "
                "[0,1] incl. 0 and 1, counts satisfiable within the 24-letter alphabet); a per-session biased "
                "stream (extreme/repeated primitive draws) for reach. Oracles per call: shape of the result, "
                "fresh parser accepts the text, independent like-term detectors (tree walker + regex), variable "
                "sets distinct and disjoint from exclusions, splits sum. distinct_nontrivial = distinct sessions "
                "by (call/mode/outcome sequence, stream seed) with at least two calls on the shared stream.")

    def probe_names(self, prop):
        return ["call_on_shared_unreseeded_stream", "group_opens_at_first_term", "grouping_parenthesis",
                "negative_coefficient", "decimal_coefficient", "power_emitted", "non_plus_operator",
                "documented_error_request", "direct_get_rand_vars_gave_up", "templates_gave_up"]

    def components(self, prop):
        return {
            "real": ["mathy_core.problems (all generators and helpers)", "mathy_core.parser (acceptance oracle)",
                     "CPython random module (Mersenne Twister) as the shared stream", "CPython set iteration "
                     "order under the recorded PYTHONHASHSEED"],
            "simulated": ["caller issuing generator calls and mode toggles in seeded order",
                          "BiasedRandom stream (reach only; give-ups under it are not reported)"],
            "reference_models": ["own like-term detectors (tree walker over the fresh parse, regex over the text)",
                                 "own checks of distinctness / exclusion / split sums"],
            "stubbed": [],
        }

    def assumptions(self, prop):
        return ["'documented ranges' = defaults; probabilities in [0,1]; min_vars<=max_vars<=number of term slots; "
                "num_terms 2..16; total terms of combine-in-place <= 25 (one focus variable + 23 distinct noise "
                "variables fit the 24-letter alphabet); blockers >= 1",
                "the four generators with a documented like-term pair are combine_terms_in_place, commute_haystack, "
                "move_around_blockers_one/two",
                "a direct get_rand_vars / get_rand_term_templates call may give up on an unsatisfiable request"]


SIM = ProblemsSim()
