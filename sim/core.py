"""Common simulator core: seed derivation, hermetic runs, known-finding
matching, delta-debugging minimisation, replay files, evidence, process pool.

A *simulation* (one of the modules parser_sim / layout_sim / problems_sim /
rewrite_sim) provides a class with

    prop            property id(s) it serves
    new_world(cfg)  -> world                     (fresh hermetic state)
    world.apply(op) -> list[Finding]             (executes one JSON op on the
                                                  REAL code + reference model)
    generate(rng, cfg, world) -> yields ops      (seeded schedule)
    draw_config(rng, tier) -> cfg

Everything random is drawn from one `random.Random` built from
(VERIF_SEED, property, tier, run index).  Logging never draws.
"""
from __future__ import annotations

import faulthandler
import fnmatch
import hashlib
import json
import os
import random
import signal
import sys
import time
import traceback
from collections import Counter
from concurrent.futures import ProcessPoolExecutor
import multiprocessing as mp

VERIF_DIR = os.path.dirname(os.path.dirname(os.path.abspath(__file__)))
REPO_DIR = os.environ.get("VERIF_REPO", "/repo")
# evidence and replay files of runs pointed at a scratch copy (sensitivity
# self-tests) never land in /verif
OUT_DIR = os.environ.get("VERIF_OUT") or (
    VERIF_DIR if os.path.realpath(REPO_DIR) == "/repo" else "/dev/shm/verif-scratch-out")
# development aid (self-tests only): scale the number of runs per stratum
SCALE = float(os.environ.get("VERIF_SCALE", "1") or 1)
CENSUS = os.environ.get("VERIF_CENSUS") == "1"   # development aid: do not stop at findings

# --------------------------------------------------------------------------
# seeds


def derive(*parts) -> int:
    h = hashlib.sha256(("|".join(str(p) for p in parts)).encode()).digest()
    return int.from_bytes(h[:8], "big")


def run_rng(seed: int, prop: str, stratum: str, index: int) -> random.Random:
    return random.Random(derive("run", seed, prop, stratum, index))


# --------------------------------------------------------------------------
# per-operation wall budget (a hang is reported, never waited out)


class OpTimeout(BaseException):
    pass


def _on_alarm(signum, frame):
    raise OpTimeout()


class op_budget:
    def __init__(self, seconds: float):
        self.seconds = seconds

    # CPU time of this process, not wall time: a descheduled worker on a busy
    # host must not look like a hang (nothing in mathy_core blocks, so a real
    # hang burns CPU)
    def __enter__(self):
        self.old = signal.signal(signal.SIGPROF, _on_alarm)
        signal.setitimer(signal.ITIMER_PROF, self.seconds)

    def __exit__(self, *exc):
        signal.setitimer(signal.ITIMER_PROF, 0)
        signal.signal(signal.SIGPROF, self.old)
        return False


def bounded_parse(text, seconds=5.0):
    """ExpressionParser().parse(text) under a CPU budget: the harness's own uses of
    the parser (start expressions, re-parse oracles, printed forms) must not hang
    when the code under test does.  Raises OpTimeoutError (an Exception) on a hang."""
    from mathy_core.parser import ExpressionParser
    try:
        with op_budget(seconds):
            return ExpressionParser().parse(text)
    except OpTimeout:
        raise OpTimeoutError(f"parse of {text[:40]!r} did not return within {seconds}s of CPU time")


class OpTimeoutError(Exception):
    pass


# --------------------------------------------------------------------------
# findings


class Finding:
    """One violation observed by an oracle.  `key` is a dict of short strings
    computed by the harness (never by the code under test); known-finding
    matchers are globs over it."""

    __slots__ = ("prop", "key", "detail")

    def __init__(self, prop: str, key: dict, detail: str):
        self.prop = prop
        self.key = {k: str(v) for k, v in key.items()}
        self.detail = detail

    def key_str(self) -> str:
        return self.prop + ":" + ",".join(f"{k}={self.key[k]}" for k in sorted(self.key))

    def to_json(self):
        return {"property": self.prop, "key": self.key, "detail": self.detail}


class HarnessError(Exception):
    pass


def load_known(path=None):
    path = path or os.environ.get("VERIF_KNOWN") or os.path.join(VERIF_DIR, "known_findings.json")
    if not os.path.exists(path):
        return []
    with open(path) as f:
        data = json.load(f)
    return [e for e in data.get("findings", []) if e.get("status") == "open"]


def match_known(finding: Finding, known) -> str | None:
    for e in known:
        if e["property"] != finding.prop:
            continue
        ok = True
        for k, pat in e["match"].items():
            v = finding.key.get(k)
            if v is None:
                ok = False
                break
            pats = pat if isinstance(pat, list) else [pat]
            if not any(fnmatch.fnmatchcase(v, p) for p in pats):
                ok = False
                break
        if ok:
            return e["id"]
    return None


# --------------------------------------------------------------------------
# running one history


class RunResult:
    __slots__ = ("ops", "findings", "events", "stats", "cfg", "sigs", "replaying")

    def __init__(self):
        self.ops = []          # executed ops (JSON values)
        self.findings = []     # (op_index, Finding)
        self.events = []       # strings, deterministic event log
        self.stats = Counter()
        self.cfg = None
        self.sigs = {}
        self.replaying = False


def execute_ops(sim, cfg, ops, stop_on=None) -> RunResult:
    """Re-execute a recorded op list against a fresh world (replay and
    minimisation).  Ops that are not executable in the current world are
    skipped by the world itself (it returns no findings and logs 'skip')."""
    res = RunResult()
    res.cfg = cfg
    res.replaying = True
    world = sim.new_world(cfg, res)
    for i, op in enumerate(ops):
        res.ops.append(op)
        fs = world.apply(op)
        for f in fs:
            res.findings.append((i, f))
        if stop_on is not None and any(f.key_str() == stop_on for f in fs):
            break
    fs = world.finish()
    for f in fs:
        res.findings.append((len(res.ops) - 1, f))
    return res


def generate_run(sim, rng, cfg, known) -> RunResult:
    res = RunResult()
    res.cfg = cfg
    world = sim.new_world(cfg, res)
    stop = False
    for op in sim.generate(rng, cfg, world):
        i = len(res.ops)
        res.ops.append(op)
        fs = world.apply(op)
        for f in fs:
            res.findings.append((i, f))
            if match_known(f, known) is None and not CENSUS:
                stop = True
        if stop:
            break
    if not stop:
        for f in world.finish():
            res.findings.append((len(res.ops) - 1, f))
    return res


def digest_events(events) -> str:
    h = hashlib.sha256()
    for e in events:
        h.update(e.encode("utf-8", "backslashreplace"))
        h.update(b"\n")
    return h.hexdigest()


# --------------------------------------------------------------------------
# minimisation: ddmin over the op list, then per-sim operand shrinking


MINIMISE_WALL_S = 60.0
_deadline = [0.0]


def _has_key(sim, cfg, ops, key_str) -> bool:
    if time.time() > _deadline[0]:
        return False        # out of minimisation budget: keep what we have
    try:
        res = execute_ops(sim, cfg, ops, stop_on=key_str)
    except HarnessError:
        return False
    return any(f.key_str() == key_str for _, f in res.findings)


def ddmin(sim, cfg, ops, key_str, budget=400):
    tests = 0
    ops = list(ops)
    n = 2
    while len(ops) >= 2 and tests < budget:
        chunk = max(1, len(ops) // n)
        reduced = False
        i = 0
        while i < len(ops) and tests < budget:
            cand = ops[:i] + ops[i + chunk:]
            tests += 1
            if cand and _has_key(sim, cfg, cand, key_str):
                ops = cand
                n = max(n - 1, 2)
                reduced = True
            else:
                i += chunk
        if not reduced:
            if chunk == 1:
                break
            n = min(len(ops), n * 2)
    return ops


def minimise(sim, cfg, ops, finding: Finding):
    key_str = finding.key_str()
    _deadline[0] = time.time() + MINIMISE_WALL_S
    # cut after the first op that shows the finding
    res = execute_ops(sim, cfg, ops, stop_on=key_str)
    ops = list(res.ops)
    if not any(f.key_str() == key_str for _, f in res.findings):
        return ops, False
    ops = ddmin(sim, cfg, ops, key_str)
    shrink = getattr(sim, "shrink_ops", None)
    if shrink is not None:
        tests = 0
        for _ in range(200):
            changed = False
            for cand in shrink(cfg, ops):
                tests += 1
                if tests > 3000:
                    break
                if _has_key(sim, cfg, cand, key_str):
                    ops = cand
                    changed = True
                    break
            if not changed or tests > 3000:
                break
        ops = ddmin(sim, cfg, ops, key_str, budget=100)
    return ops, True


# --------------------------------------------------------------------------
# replay files


def write_replay(sim_name, prop, finding: Finding, seed, stratum, index, cfg, ops,
                 hash_seed="0", extra=None):
    d = os.path.join(OUT_DIR, "replays", prop)
    os.makedirs(d, exist_ok=True)
    tag = hashlib.sha256(finding.key_str().encode()).hexdigest()[:10]
    path = os.path.join(d, f"{tag}-s{seed}-{stratum}-{index}.json")
    with open(path, "w") as f:
        json.dump({
            **(extra or {}),
            "sim": sim_name,
            "property": prop,
            "key": finding.key,
            "key_str": finding.key_str(),
            "detail": finding.detail,
            "seed": seed,
            "stratum": stratum,
            "run_index": index,
            "hash_seed": hash_seed,
            "config": cfg,
            "ops": ops,
        }, f, indent=1, sort_keys=True)
    return path


# --------------------------------------------------------------------------
# process pool


def _worker_init():
    faulthandler.enable()
    # a stuck worker dumps its stack instead of hanging silently
    faulthandler.dump_traceback_later(1500, exit=True)


def run_forked(jobs, workers, fn):
    """Run fn(*job) for every job, each in its own process, at most `workers`
    at a time; results in job order.  One batch = one process lifetime, so
    whatever process-global state the code under test keeps is part of a
    batch's (repeatable) history and never leaks between batches or depends on
    the worker count.

    Workers are forked by a small *factory* process that is itself forked
    first, while this process is still pristine and small: the parent grows as
    it merges results (hundreds of MB in thorough runs), and forking workers --
    and their oracle zygotes and grandchildren -- from a large parent made every
    fork slow."""
    import pickle
    import tempfile
    results = [None] * len(jobs)
    tmpdir = tempfile.mkdtemp(prefix="verif-fork-", dir="/dev/shm" if os.path.isdir("/dev/shm") else None)
    note_r, note_w = os.pipe()
    sys.stdout.flush()
    sys.stderr.flush()
    factory = os.fork()
    if factory == 0:
        code = 0
        try:
            os.close(note_r)
            for o in _ORACLES.values():
                for fd in (o.req_w, o.res_r):
                    try:
                        os.close(fd)
                    except OSError:
                        pass
            _ORACLES.clear()
            _factory_loop(jobs, workers, fn, tmpdir, note_w)
        except BaseException:
            traceback.print_exc()
            code = 4
        finally:
            sys.stdout.flush()
            sys.stderr.flush()
            os._exit(code)
    os.close(note_w)
    try:
        buf = b""
        done = 0
        failed = None
        while True:
            chunk = os.read(note_r, 65536)
            if not chunk:
                break
            buf += chunk
            while b"\n" in buf:
                line, buf = buf.split(b"\n", 1)
                i, status = (int(x) for x in line.split())
                path = os.path.join(tmpdir, f"{i}.pkl")
                if status != 0 or not os.path.exists(path):
                    failed = (i, status)
                    break
                with open(path, "rb") as f:
                    results[i] = pickle.load(f)
                os.unlink(path)
                done += 1
            if failed:
                break
        if failed:
            try:
                os.kill(factory, signal.SIGTERM)
            except OSError:
                pass
        _, fstatus = os.waitpid(factory, 0)
        if failed:
            i, status = failed
            raise HarnessError(f"worker for job {i} {jobs[i][:5] if isinstance(jobs[i], tuple) else ''} "
                               f"died (status {status})")
        if fstatus != 0 or done != len(jobs):
            raise HarnessError(f"worker factory ended with status {fstatus} after {done}/{len(jobs)} jobs")
    finally:
        os.close(note_r)
        import shutil
        shutil.rmtree(tmpdir, ignore_errors=True)
    return results


def _factory_loop(jobs, workers, fn, tmpdir, note_w):
    import pickle
    running = {}
    nxt = 0

    def _term(signum, frame):
        for q in running:
            try:
                os.kill(q, signal.SIGKILL)
            except OSError:
                pass
        os._exit(5)
    signal.signal(signal.SIGTERM, _term)
    while nxt < len(jobs) or running:
        while nxt < len(jobs) and len(running) < workers:
            path = os.path.join(tmpdir, f"{nxt}.pkl")
            pid = os.fork()
            if pid == 0:
                code = 0
                try:
                    signal.signal(signal.SIGTERM, signal.SIG_DFL)
                    os.close(note_w)
                    _worker_init()
                    out = fn(*jobs[nxt])
                    with open(path + ".tmp", "wb") as f:
                        pickle.dump(out, f)
                    os.replace(path + ".tmp", path)
                except BaseException:
                    traceback.print_exc()
                    code = 3
                finally:
                    sys.stdout.flush()
                    sys.stderr.flush()
                    os._exit(code)
            running[pid] = nxt
            nxt += 1
        pid, status = os.wait()
        if pid not in running:
            continue
        i = running.pop(pid)
        os.write(note_w, f"{i} {status}\n".encode())
        if status != 0:
            for q in running:
                try:
                    os.kill(q, signal.SIGKILL)
                except OSError:
                    pass
            os._exit(6)


def n_workers() -> int:
    try:
        return max(1, int(os.environ.get("VERIF_WORKERS", "") or os.cpu_count() or 4))
    except ValueError:
        return 4


# --------------------------------------------------------------------------
# pristine-process oracle
#
# A reference model that is "the real code without history" (a fresh parser)
# is only history-free if the code keeps no state outside the object.  A
# module- or class-level cache would corrupt the reference together with the
# system under test and the two would agree.  The pristine oracle answers a
# request in a grandchild forked from a zygote that was itself forked before
# this process executed any code under test, so nothing any run did can reach
# it.


class PristineOracle:
    def __init__(self, handler):
        import pickle
        self._pickle = pickle
        self.handler = handler
        self.req_r, self.req_w = os.pipe()
        self.res_r, self.res_w = os.pipe()
        sys.stdout.flush()
        sys.stderr.flush()
        self.pid = os.fork()
        if self.pid == 0:
            try:
                os.close(self.req_w)
                os.close(self.res_r)
                self._serve()
            except BaseException:
                traceback.print_exc()
            finally:
                os._exit(0)
        os.close(self.req_r)
        os.close(self.res_w)
        self.requests = 0

    # -- framing
    @staticmethod
    def _send(fd, data: bytes):
        os.write(fd, len(data).to_bytes(4, "big") + data)

    @staticmethod
    def _recv(fd):
        def rd(n):
            buf = b""
            while len(buf) < n:
                chunk = os.read(fd, n - len(buf))
                if not chunk:
                    return None
                buf += chunk
            return buf
        head = rd(4)
        if head is None:
            return None
        return rd(int.from_bytes(head, "big"))

    def _serve(self):
        # the zygote: never executes code under test itself
        while True:
            data = self._recv(self.req_r)
            if data is None:
                return
            pid = os.fork()
            if pid == 0:
                try:
                    # (no faulthandler watchdog here: re-arming it in a process forked while the
                    # parent's watchdog thread was alive deadlocks; handlers bound their own work)
                    out = self.handler(self._pickle.loads(data))
                    self._send(self.res_w, self._pickle.dumps(("ok", out)))
                except BaseException as e:  # noqa
                    self._send(self.res_w, self._pickle.dumps(("err", repr(e))))
                finally:
                    os._exit(0)
            _, status = os.waitpid(pid, 0)
            if status != 0:
                self._send(self.res_w, self._pickle.dumps(("err", f"oracle child status {status}")))

    def ask(self, request):
        self.requests += 1
        self._send(self.req_w, self._pickle.dumps(request))
        data = self._recv(self.res_r)
        if data is None:
            raise HarnessError("pristine oracle went away")
        kind, out = self._pickle.loads(data)
        if kind != "ok":
            raise HarnessError(f"pristine oracle failed: {out}")
        return out

    def close(self):
        try:
            os.close(self.req_w)
            os.close(self.res_r)
            os.waitpid(self.pid, 0)
        except OSError:
            pass


_ORACLES = {}


def start_oracle(name, handler):
    """Must be called before this process has executed any code under test."""
    if name not in _ORACLES:
        _ORACLES[name] = PristineOracle(handler)
    return _ORACLES[name]


def get_oracle(name):
    return _ORACLES.get(name)


def close_oracles():
    for o in _ORACLES.values():
        o.close()
    _ORACLES.clear()


# --------------------------------------------------------------------------
# evidence


def write_evidence(prop, tier, seed, coverage, wall_s, violations, assumptions):
    d = os.path.join(OUT_DIR, "evidence")
    os.makedirs(d, exist_ok=True)
    path = os.path.join(d, f"{prop}.json")
    tmp = path + ".tmp"
    with open(tmp, "w") as f:
        json.dump({
            "property_id": prop,
            "tier": tier,
            "seed": seed,
            "level": "exploration",
            "coverage": coverage,
            "assumptions": assumptions,
            "wall_s": round(wall_s, 3),
            "violations": violations,
        }, f, indent=1, sort_keys=True, default=str)
    os.replace(tmp, path)
    return path
