"""Seeded generators of input text, written from the documented grammar
(parser.py docstring), plus token soups and mutations.  Validity is *not*
decided here -- the oracles classify by what a fresh parser does."""
from __future__ import annotations

VARS = "xyzabct"
ALPHABET_OPS = ["+", "-", "*", "/", "^", "!", "=", "(", ")", "[", "]", "–"]
UNSUPPORTED = ["#", "$", "&", "?", "_", ",", ";", "@", "é", "{", "|", "~", "%", ":", "'",
               # characters that str.isspace()/isdigit()/isalpha() accept but the alphabet does not
               "\xa0", "\x0c", "\x0b", "\x85", "\u2003", "\u2028", "\x1c",
               "²", "٣", "５", "ｘ", "Ａ", "π", "−", "×", "÷", "—", "“"]


def number(rng, cfg) -> str:
    r = rng.random()
    if r < 0.55:
        return str(rng.randint(0, 12))
    if r < 0.7:
        return str(rng.randint(13, 9999))
    if r < 0.9 and cfg.get("floats", True):
        return rng.choice(["0.5", "1.5", "2.5", "0.25", "3.75", "10.0", "0.1", "7.2", ".5", "4."])
    if r < 0.94:
        return "0"
    if r < 0.95 and cfg.get("long_literals", False):
        # very long literals: beyond the float range / beyond what fits a machine word
        digits = "".join(rng.choice("0123456789") for _ in range(rng.choice([25, 60, 320, 420])))
        return digits.lstrip("0") + rng.choice(["", "", ".0", ".5", "."]) or "7"
    if r < 0.97 and cfg.get("floats", True):
        # magnitudes at which float formatting changes style
        # (no huge decimals: util.factor loops up to sqrt(value), which is a cost, not a property)
        return rng.choice(["0.00002", "0.0001", "0.000001", "0.00000007", "0.1", "1234567.125"])
    return str(rng.randint(10 ** 9, 10 ** 12))


def variable(rng, cfg) -> str:
    vs = cfg.get("vars", VARS)
    v = rng.choice(vs)
    if cfg.get("upper", False) and rng.random() < 0.1:
        v = v.upper()
    return v


def atom(rng, cfg, d) -> str:
    r = rng.random()
    if r < 0.3:
        return number(rng, cfg)
    if r < 0.55:
        return variable(rng, cfg)
    if r < 0.75:
        # coefficient term 4x, 4x^2
        t = number(rng, cfg) + variable(rng, cfg)
        if rng.random() < 0.4:
            t += "^" + str(rng.randint(0, 4))
        return t
    if r < 0.8 and cfg.get("fact", True):
        return str(rng.randint(0, 6)) + "!"
    if r < 0.85 and cfg.get("sgn", True) and d > 0:
        return "sgn(" + expr(rng, cfg, d - 1) + ")"
    if d > 0:
        return paren(rng, cfg, expr(rng, cfg, d - 1))
    return variable(rng, cfg)


def paren(rng, cfg, s) -> str:
    if cfg.get("brackets", False) and rng.random() < 0.3:
        return "[" + s + "]"
    return "(" + s + ")"


def sp(rng, cfg) -> str:
    style = cfg.get("space", 1)
    if style == 0:
        return ""
    if style == 1:
        return " "
    return rng.choice(["", " ", "  ", "\t"])


def expr(rng, cfg, d) -> str:
    if d <= 0:
        return atom(rng, cfg, 0)
    r = rng.random()
    s = sp(rng, cfg)
    if rng.random() < 0.06:
        # twins: the same sub-expression on both sides of an operator
        t = expr(rng, cfg, d - 1)
        op = rng.choice(["-", "-", "+", "/", "*", "^"])
        return rng.choice([f"({t}){s}{op}{s}({t})", f"{t}{s}{op}{s}({t})", f"{t}{s}{op}{s}{t}"])
    if r < 0.3:
        op = rng.choice("++-")
        return expr(rng, cfg, d - 1) + s + op + s + expr(rng, cfg, d - 1)
    if r < 0.5:
        kind = rng.random()
        if kind < 0.5:
            return factor(rng, cfg, d - 1) + s + "*" + s + factor(rng, cfg, d - 1)
        if kind < 0.75:
            return factor(rng, cfg, d - 1) + s + "/" + s + factor(rng, cfg, d - 1)
        # juxtaposition
        k = rng.randint(2, 3)
        parts = []
        for i in range(k):
            q = rng.random()
            if i == 0 and q < 0.4:
                parts.append(number(rng, cfg))
            elif q < 0.7:
                parts.append(variable(rng, cfg))
            else:
                parts.append(paren(rng, cfg, expr(rng, cfg, d - 1)))
        t = "".join(parts)
        if rng.random() < 0.3:
            t += "^" + atom(rng, cfg, 0)
        return t
    if r < 0.62:
        base = atom(rng, cfg, d - 1)
        e = rng.random()
        if e < 0.6:
            ex = str(rng.randint(0, 5))
        elif e < 0.75:
            ex = "-" + str(rng.randint(1, 3))
        elif e < 0.9:
            ex = variable(rng, cfg)
        else:
            ex = paren(rng, cfg, expr(rng, cfg, d - 1))
        return base + "^" + ex
    if r < 0.74:
        return "-" + atom(rng, cfg, d - 1)
    if r < 0.86:
        return paren(rng, cfg, expr(rng, cfg, d - 1))
    return atom(rng, cfg, d)


def factor(rng, cfg, d) -> str:
    s = expr(rng, cfg, d)
    if any(c in s for c in "+-"):
        if rng.random() < 0.85:
            return paren(rng, cfg, s)
    return s


def valid_text(rng, cfg) -> str:
    d = rng.randint(0, cfg.get("depth", 3))
    s = expr(rng, cfg, d)
    if cfg.get("eq", True) and rng.random() < 0.2:
        s = s + sp(rng, cfg) + "=" + sp(rng, cfg) + expr(rng, cfg, rng.randint(0, 2))
    if cfg.get("endash", False) and "-" in s and rng.random() < 0.3:
        i = s.index("-")
        s = s[:i] + "–" + s[i + 1:]
    return s[: cfg.get("max_len", 60)] if len(s) > cfg.get("max_len", 60) and rng.random() < 0.5 else s


def numberish(rng) -> str:
    """Number-like runs that scanners of other languages treat specially (scientific
    notation with short and absurdly long exponents, long digit runs with a second dot,
    leading zeros, hex).  The grammar has none of these: they are digit runs, letters
    and dots -- whatever the parser answers, it must answer at once."""
    digits = lambda k: "".join(rng.choice("0123456789") for _ in range(k))
    r = rng.random()
    if r < 0.35:
        m = rng.choice(["1", "7", "3", "12", "2.5", digits(3), "0"])
        e = rng.choice(["e", "E", "E", "e+", "E+", "E-", "e-"])
        x = rng.choice(["2", "5", "10", "308", "400", digits(8), digits(11), digits(14), ""])
        return m + e + x + rng.choice(["", "", "x", " + 1"])
    if r < 0.7:
        run = digits(rng.choice([5, 18, 22, 26, 30, 40, 60]))
        tail = rng.choice([".5.0", "..", ".5.", ".0.0.0", "." + digits(20) + ".", ".5", ""])
        return rng.choice(["", "", "2x + ", "."]) + run + tail
    if r < 0.85:
        return rng.choice(["000", "0", "00"]) + digits(rng.choice([1, 3, 20])) + rng.choice(["", ".", ".000"])
    return rng.choice(["0x1F", "0b101", "1_000", "1,000.5", "1e", "E5", "1.e5", ".e1", "1.5.e3", "Infinity", "nan", "1e-"])


def soup(rng, cfg) -> str:
    n = rng.randint(0, cfg.get("soup_len", 10))
    out = []
    for _ in range(n):
        r = rng.random()
        if r < 0.25:
            out.append(number(rng, cfg))
        elif r < 0.45:
            out.append(variable(rng, cfg))
        elif r < 0.5:
            out.append("sgn")
        elif r < 0.55:
            out.append(rng.choice([" ", "\t", "\n", "  "]))
        elif r < 0.58:
            out.append(rng.choice(UNSUPPORTED))
        elif r < 0.62:
            out.append(rng.choice(["1.2.3", ".", "..", "1..2", "0.0.0"]) if rng.random() < 0.5 else numberish(rng))
        else:
            out.append(rng.choice(ALPHABET_OPS))
    return "".join(out)


def mutate(rng, s: str) -> str:
    if not s:
        return rng.choice(["(", ")", "x", "1", ""])
    r = rng.random()
    i = rng.randrange(len(s))
    if r < 0.25:
        return s[:i] + s[i + 1:]
    if r < 0.5:
        return s[:i] + rng.choice(ALPHABET_OPS + list("x1 .")) + s[i:]
    if r < 0.65:
        return s[:i]
    if r < 0.8:
        return s[:i] + rng.choice(ALPHABET_OPS + list("y2")) + s[i + 1:]
    if r < 0.9:
        j = rng.randrange(len(s))
        a, b = min(i, j), max(i, j)
        return s[:a] + s[b:]
    return s + rng.choice(ALPHABET_OPS + ["sgn", "sgn(", "1.2.3", "#"])


def long_flat(rng) -> str:
    """Flat chains of 150-1500 terms: nesting depth 0, but deep trees / long token queues.
    (Beyond ~990 factors the pinned parser's right-recursive parse_mult raised RecursionError;
    repaired in /repo, so the whole range is explored for every operator.)"""
    n = rng.choice([150, 300, 450, 650, 1100, 1500])
    op = rng.choice([" + ", " - ", "+", " * ", "*", " / ", "/"])
    terms = [rng.choice(["x", "y", "2x", "3", "x^2", "4y", "z"]) for _ in range(n)]
    s = op.join(terms)
    r = rng.random()
    if r < 0.15:
        return s + " ="
    if r < 0.25:
        return s + " = 1"
    if r < 0.32:
        return s + rng.choice([" +", " )", " ^", " 7 7"])
    return s


DEEP_NESTING = 100   # bracket depth from which RecursionError is not a C10 violation ("bounded nesting")


def bracket_depth(s: str) -> int:
    d = m = 0
    for c in s:
        if c in "([":
            d += 1
            m = max(m, d)
        elif c in ")]":
            d -= 1
    return m


def deep_nested(rng) -> str:
    """Nesting far beyond any recursion limit: the parser is allowed to give up with
    RecursionError, but the failed call must leave no trace on the parser (C10/C12)."""
    k = rng.choice([400, 1500])
    inner = rng.choice(["x", "2x + 1", "4", ""])
    return "(" * k + inner + ")" * rng.choice([k, k, k - 1, 0])


def confusables(rng, s: str):
    """Texts that a text-keyed cache could confuse with s."""
    out = []
    out.append(" " + s)
    out.append(s + " ")
    out.append(s.replace(" ", ""))
    out.append(s.replace(" ", "  "))
    if "(" in s:
        out.append(s.replace("(", "[").replace(")", "]"))
    if "-" in s:
        out.append(s.replace("-", "–", 1))
    if any(c.isalpha() for c in s):
        out.append(s.upper())
        out.append(s.swapcase())
    if len(s) > 1:
        out.append(s[: rng.randrange(1, len(s))])
        out.append(s + rng.choice(["+", ")", "x", "^", " 2", "=1", "!"]))
    out.append(s.replace("2", "3", 1))
    return [t for t in out if t != s]


CORPUS = [
    "4x + 2y", "4x^2", "(7 + 3) * 2", "-x", "--x", "-(x + 1)", "x - -3", "2 * -3", "5!", "sgn(-4) + x",
    "4/x^3+2-7x*12=0", "x = 2x + 1", "(2e + 12p)(16 + 7e)", "4x^3 * 2y", "xyz", "2xy^2", "x^y^2",
    "a + b + c + d", "a - b - c", "a / b / c", "a * b * c", "(a + b)(c + d)(e + f)", "((((x))))",
    "[x + 1](x - 1)", "1.5x + 0.25", ".5 + 4.", "12 - -2x^2", "x^-2", "x^(1 + 2)", "2^3^2", "(x + 1)^2",
    "7x * 8y^3", "10 + 6.6", "-3^2", "-(3)^2", "3 - (2 - x)", "2(3x)", "(x)(y)", "x(y + 2)", "4(x)^2",
    "1 + 2 = 3 = 4", "100000000000 * 3", "0x + 0", "x / 0", "6!/3!", "sgn(sgn(x))", "2sgn(x)",
    "a–b", "x  +\ty", "-4x^2 + -y", "(-x)^2", "-(x^2)", "4 - 3x", "4 - (3 - x)", "5y^3 * 2",
    "(5y)^3", "(a^b)^c", "x^2 + x^2", "0.5x^2 + 0.5x^2", "12^12", "(12^12)^3",
]
