"""Rewrite-episode simulation (C09).

A simulated search agent holds a pool of live states (expression roots) and
expands them in seeded order through the REAL rules, each step on a
clone_from_root copy.  Reference models evaluated after every step: shadow
snapshots of every live state (isolation), own link audit, fresh-parser
print/re-parse, exact-rational equivalence with the predecessor."""
from __future__ import annotations

import glob
import hashlib
import json
import os
import random as _random
from fractions import Fraction

from . import core, gen, trees
from .core import Finding

STEP_BUDGET_S = 10.0
QUERY_BUDGET_S = 2.0
MAX_NODES = 90
MAX_LIVE = 40

RULES = ["AG", "BM", "CS", "CSnp", "CA", "DF", "DFc", "DM", "MI", "RS", "VM"]


def make_rules():
    from mathy_core import rules as R
    return {
        "AG": R.AssociativeSwapRule(),
        "BM": R.BalancedMoveRule(),
        "CS": R.CommutativeSwapRule(),
        "CSnp": R.CommutativeSwapRule(preferred=False),
        "CA": R.ConstantsSimplifyRule(),
        "DF": R.DistributiveFactorOutRule(),
        "DFc": R.DistributiveFactorOutRule(constants=True),
        "DM": R.DistributiveMultiplyRule(),
        "MI": R.MultiplicativeInverseRule(),
        "RS": R.RestateSubtractionRule(),
        "VM": R.VariableMultiplyRule(),
    }


_TEST_INPUTS = None


def rule_test_inputs():
    global _TEST_INPUTS
    if _TEST_INPUTS is None:
        out = []
        for path in sorted(glob.glob(os.path.join(core.REPO_DIR, "mathy_core", "rules", "*.test.json"))):
            try:
                with open(path) as f:
                    data = json.load(f)
            except Exception:
                continue
            for sect in ("valid", "invalid"):
                for ex in data.get(sect, []):
                    if isinstance(ex.get("input"), str):
                        ctx = ex.get("eval_context") or {}
                        out.append((ex["input"], {k: str(v) for k, v in ctx.items()
                                                  if isinstance(v, (int, float))}))
        _TEST_INPUTS = out
    return _TEST_INPUTS


# --------------------------------------------------------------------------
# descriptors used in finding keys (computed by the harness)


def kind(node):
    from mathy_core import expressions as E
    if node is None:
        return "_"
    if isinstance(node, E.ConstantExpression):
        try:
            v = node.value
            if v != v:
                return "Cnan"
            return "C-" if v < 0 else ("C0" if v == 0 else "C+")
        except Exception:
            return "C?"
    if isinstance(node, E.VariableExpression):
        return "V"
    return {"AddExpression": "Add", "SubtractExpression": "Sub", "MultiplyExpression": "Mul",
            "DivideExpression": "Div", "PowerExpression": "Pow", "EqualExpression": "Eq",
            "NegateExpression": "Neg", "FactorialExpression": "Fact", "SgnExpression": "Sgn",
            "AbsExpression": "Abs"}.get(type(node).__name__, type(node).__name__)


def desc(node, depth):
    k = kind(node)
    if node is None or depth == 0 or (node.left is None and node.right is None):
        return k if (node is None or node.left is None and node.right is None) else k + "(..)"
    from mathy_core import expressions as E
    if isinstance(node, E.UnaryExpression):
        c = node.left if node.left is not None else node.right
        return f"{k}({desc(c, depth - 1)})"
    return f"{k}({desc(node.left, depth - 1)},{desc(node.right, depth - 1)})"


def path_to_root(node):
    out = []
    n = node
    while n is not None and n.parent is not None:
        side = "L" if n.parent.left is n else "R"
        out.append(kind(n.parent) + side)
        n = n.parent
    return "/".join(out[:4])


def snapshot(root):
    """Identity + structure + payload of every node, scratch fields excluded."""
    from mathy_core import expressions as E
    out = []
    for n in trees.nodes_preorder(root):
        payload = None
        if isinstance(n, E.ConstantExpression):
            payload = trees.const_payload(n.value)
        elif isinstance(n, E.VariableExpression):
            payload = n.identifier
        out.append((id(n), type(n).__name__, payload, id(n.left) if n.left is not None else 0,
                    id(n.right) if n.right is not None else 0,
                    id(n.parent) if n.parent is not None else 0))
    return out


def struct_hash(root):
    return hashlib.sha1(repr(trees.sig(root)).encode()).hexdigest()[:16]


class State:
    __slots__ = ("root", "shadow", "printed", "actions", "parent", "depth", "hash", "ids")

    def __init__(self, root, parent, depth):
        self.root = root
        self.parent = parent
        self.depth = depth
        self.shadow = None
        self.printed = None
        self.actions = None
        self.hash = None
        self.ids = None


class World:
    def __init__(self, cfg, res):
        from mathy_core.parser import ExpressionParser
        self.cfg = cfg
        self.res = res
        self.rules = make_rules()
        self.enabled = [r for r in RULES if r in cfg.get("rules", RULES)]
        self.states = []
        self.slow_rules = set()
        self.planted = [{k: Fraction(v) for k, v in env.items()} for env in cfg.get("planted", [])]
        self.points_cache = {}
        self.ops_done = 0
        res.sigs = {"deep_states": set(), "states": set(), "transitions": set()}
        try:
            root = core.bounded_parse(cfg["start"])
        except Exception:
            root = None
        self.pending = []
        if root is not None and trees.size(root) <= MAX_NODES and not trees.audit(root):
            self._admit(root, None, 0)
            self.pending.extend(self.round_trip(root, f"parsed from {cfg['start']!r}"))
        else:
            res.stats["start_rejected"] += 1

    # ------------------------------------------------------------------
    def _actions(self, root):
        """All applicable (rule, in-order index) pairs, queried on the live
        state itself as agents do (this writes r_index scratch)."""
        out = []
        big = None
        for name in self.enabled:
            if name in self.slow_rules:
                continue
            if name in ("DF", "DFc"):
                # util.factor loops up to sqrt(|coefficient|) in pure Python: querying the
                # factoring rules on trees with huge constants is a cost, not a property.
                # Deterministic cut-off (the CPU budget below is only a safety net).
                if big is None:
                    big = self._has_huge_constant(root)
                if big:
                    self.res.stats["diag.factoring_not_queried_huge_constant"] += 1
                    continue
            rule = self.rules[name]
            try:
                with core.op_budget(QUERY_BUDGET_S):
                    nodes = rule.find_nodes(root)
            except core.OpTimeout:
                # e.g. util.factor loops up to sqrt(coefficient): a cost, not a property.
                # The rule is left out for the rest of this episode.
                self.res.stats["diag.find_nodes_over_budget." + name] += 1
                self.slow_rules.add(name)
                continue
            except Exception as e:  # noqa
                self.res.stats["diag.find_nodes_raised." + name] += 1
                continue
            for n in nodes:
                out.append((name, n.r_index))
        return out

    @staticmethod
    def _has_huge_constant(root):
        from mathy_core import expressions as E
        for n in trees.nodes_preorder(root):
            if isinstance(n, E.ConstantExpression):
                try:
                    if abs(n.value) > 1e10:
                        return True
                except Exception:
                    return True
        return False

    def _admit(self, root, parent, depth):
        s = State(root, parent, depth)
        try:
            s.printed = str(root)
        except Exception:
            s.printed = None
        s.actions = self._actions(root)
        s.shadow = snapshot(root)
        s.ids = {t[0] for t in s.shadow}
        s.hash = struct_hash(root)
        self.states.append(s)
        self.res.sigs["states"].add(s.hash)
        if depth >= 2:
            self.res.sigs["deep_states"].add(s.hash)
        self._probe_shape(root)
        return s

    def _probe_shape(self, root):
        from mathy_core import expressions as E
        import numpy as np
        st = self.res.stats
        seen = set()
        for n in trees.nodes_preorder(root):
            if isinstance(n, E.NegateExpression) and isinstance(n.get_child(), E.NegateExpression):
                seen.add("probe.shape_nested_negation")
            if isinstance(n, E.PowerExpression) and isinstance(n.left, (E.MultiplyExpression, E.NegateExpression)):
                seen.add("probe.shape_power_of_product_or_negation")
            if isinstance(n, E.PowerExpression) and isinstance(n.left, E.PowerExpression):
                seen.add("probe.shape_power_of_power")
            if isinstance(n, E.MultiplyExpression) and isinstance(n.left, E.MultiplyExpression):
                seen.add("probe.shape_left_nested_product")
            if isinstance(n, E.ConstantExpression) and isinstance(n.value, np.generic):
                seen.add("probe.shape_numpy_constant")
            if isinstance(n, E.NegateExpression) and isinstance(n.get_child(), E.ConstantExpression):
                seen.add("probe.shape_negated_constant")
        for k in seen:
            st[k] += 1

    def _points(self, names):
        key = tuple(names)
        if key not in self.points_cache:
            rng = _random.Random(core.derive("points", self.cfg.get("eq_seed", 0), ",".join(names)))
            self.points_cache[key] = trees.sample_points(rng, list(names), 8)
        return self.points_cache[key]

    def _equiv(self, a, b, exact=False):
        try:
            with core.op_budget(20.0):
                return self._equiv_inner(a, b, exact)
        except core.OpTimeout:
            # the reference evaluator itself ran away (astronomically large rationals):
            # no verdict rather than a hung worker
            self.res.stats["diag.oracle_over_budget"] += 1
            c = trees.Cmp()
            c.verdict = "unchecked"
            return c

    def _equiv_inner(self, a, b, exact=False):
        names = sorted(set(trees.variables_of(a)) | set(trees.variables_of(b)))
        pts = self._points(names)
        if trees.is_equation(a) != trees.is_equation(b):
            c = trees.Cmp()
            c.verdict = "diff"
            c.witness = "one is an equation, the other is not"
            return c
        if trees.is_equation(a):
            if exact:
                return trees.compare_eqn_exact(a, b, pts, self.planted)
            return trees.compare_eqn(a, b, pts, self.planted, None)
        return trees.compare_expr(a, b, pts, exact=exact)

    # ------------------------------------------------------------------
    def check_isolation(self, rule_name):
        fs = []
        owner = {}
        for i, s in enumerate(self.states):
            cur = snapshot(s.root)
            if cur != s.shadow:
                what = "structure"
                if len(cur) == len(s.shadow):
                    if [c[1:3] for c in cur] == [c[1:3] for c in s.shadow]:
                        what = "links-or-identity"
                    elif [c[1] for c in cur] == [c[1] for c in s.shadow]:
                        what = "payload"
                fs.append(Finding("C09", {"clause": "isolation", "rule": rule_name, "what": what},
                                  f"state #{i} ({s.printed}) was altered by a later step "
                                  f"(now {self._safe_str(s.root)})"))
                s.shadow = cur      # report once
                s.ids = {t[0] for t in cur}
            for t in s.shadow:
                if t[0] in owner and owner[t[0]] != i:
                    fs.append(Finding("C09", {"clause": "isolation", "rule": rule_name, "what": "shared-node"},
                                      f"a {t[1]} node object is reachable from states #{owner[t[0]]} and #{i}"))
                    return fs
                owner[t[0]] = i
        return fs

    @staticmethod
    def _safe_str(root):
        try:
            return str(root)
        except Exception as e:  # noqa
            return f"<unprintable: {type(e).__name__}>"

    # ------------------------------------------------------------------
    def apply(self, op):
        st = self.res.stats
        fs = self.pending
        self.pending = []
        if not self.states:
            self.res.events.append("no-start")
            return fs
        kind_ = op[0]
        si = op[1] % len(self.states) if len(op) > 1 else 0
        s = self.states[si]
        if kind_ == "requery":
            st["fault.requery_of_old_state_between_steps"] += 1
            acts = self._actions(s.root)
            recorded = [a for a in s.actions if a[0] not in self.slow_rules]
            if acts != recorded:
                fs.append(Finding("C09", {"clause": "isolation", "rule": "-", "what": "actions-changed"},
                                  f"state #{si} ({s.printed}): applicable actions changed from "
                                  f"{s.actions[:6]} to {acts[:6]}"))
                s.actions = acts
            fs.extend(self.check_isolation("-"))
            self.res.events.append(f"requery {si} -> {len(acts)}")
            return fs
        if kind_ == "termtext":
            # a caller renders an old state for the terminal (public API; it walks the tree
            # twice setting and clearing a per-node rendering flag)
            st["fault.terminal_text_of_old_state_between_steps"] += 1
            try:
                s.root.terminal_text
            except Exception:
                st["diag.terminal_text_raised"] += 1
            fs.extend(self.check_isolation("-"))
            self.res.events.append(f"termtext {si}")
            return fs
        if kind_ == "reprint":
            st["fault.reprint_of_old_state_between_steps"] += 1
            p = self._safe_str(s.root)
            if s.printed is not None and p != s.printed:
                fs.append(Finding("C09", {"clause": "isolation", "rule": "-", "what": "print-changed"},
                                  f"state #{si} printed {s.printed!r} when created, now {p!r}"))
                s.printed = p
            self.res.events.append(f"reprint {si}")
            return fs
        if kind_ == "inplace":
            return fs + self._inplace(si, s, op[2], op[3])
        if kind_ != "expand":
            raise core.HarnessError(f"unknown op {op!r}")
        rule_name, ni = op[2], op[3]
        if rule_name not in self.rules or (rule_name, ni) not in s.actions:
            self.res.events.append(f"expand {si} {rule_name} {ni} skip")
            return fs
        rule = self.rules[rule_name]
        # locate the node by in-order index on the live state
        order = []

        def _in(n):
            if n is None:
                return
            _in(n.left)
            order.append(n)
            _in(n.right)
        _in(s.root)
        if ni >= len(order):
            self.res.events.append("expand skip")
            return fs
        node = order[ni]
        st["steps"] += 1
        st["steps." + rule_name] += 1
        if si != len(self.states) - 1:
            st["fault.expansion_of_an_older_state"] += 1
        st["fault.step_aborted"] += 0
        local = desc(node, 2)
        ctx = path_to_root(node)
        new_root = None
        try:
            with core.op_budget(STEP_BUDGET_S):
                if not rule.can_apply_to(node):
                    st["diag.applicability_changed"] += 1
                    self.res.events.append(f"expand {si} {rule_name} {ni} not-applicable")
                    return fs + self.check_isolation(rule_name)
                target = node.clone_from_root()
                change = rule.apply_to(target)
                result = change.result
                new_root = result.get_root() if result is not None else None
        except core.OpTimeout:
            st["fault.step_aborted"] += 1
            st["fault.step_aborted.timeout"] += 1
        except Exception as e:  # noqa
            st["fault.step_aborted"] += 1
            st["fault.step_aborted." + rule_name + "." + type(e).__name__] += 1
        fs.extend(self.check_isolation(rule_name))
        if new_root is None:
            self.res.events.append(f"expand {si} {rule_name} {ni} aborted")
            return fs
        base = {"rule": rule_name}
        # 3. well formed
        probs = trees.audit(new_root)
        if probs:
            fs.append(Finding("C09", dict(base, clause="well-formed", what=probs[0][:48], site=local),
                              f"{rule_name} at node {ni} of {s.printed!r} gave a malformed tree: {probs[0]}"))
            # a malformed tree is still a tree a rewrite produced: C04 asks for its round trip too
            # (a stale parent link, for one, changes which parentheses are printed)
            if trees.size(new_root) <= MAX_NODES:
                try:
                    fs.extend(self.round_trip(new_root, f"{rule_name} on {s.printed!r}"))
                except (RecursionError, AttributeError, TypeError, ValueError):
                    st["diag.round_trip_of_malformed_tree_failed"] += 1
            self.res.events.append(f"expand {si} {rule_name} {ni} malformed")
            return fs
        if trees.size(new_root) > MAX_NODES:
            st["too_large"] += 1
            self.res.events.append(f"expand {si} {rule_name} {ni} too-large")
            return fs
        # 5. equivalent to predecessor
        admit = True
        cmp_ = self._equiv(s.root, new_root)
        st["equiv." + cmp_.verdict] += 1
        st["equiv.points_checked"] += cmp_.checked
        st["equiv.indeterminate"] += cmp_.indet
        if cmp_.verdict == "diff":
            admit = False
            key = dict(base, clause="value", site=local)
            if rule_name == "BM":
                key["ctx"] = ctx
            fs.append(Finding("C09", key,
                              f"{rule_name} at node {ni} ({local}) of {s.printed!r} -> {self._safe_str(new_root)!r}: "
                              f"{cmp_.witness}"))
        fs.extend(self.round_trip(new_root, f"{rule_name} on {s.printed!r}"))
        # 4. prints and re-parses
        from mathy_core.parser import ExpressionParser
        text = None
        try:
            text = str(new_root)
        except Exception as e:  # noqa
            admit = False
            fs.append(Finding("C09", dict(base, clause="print", exc=type(e).__name__),
                              f"str() of the result of {rule_name} on {s.printed!r} raised {type(e).__name__}"))
        if text is not None:
            try:
                back = core.bounded_parse(text)
            except Exception as e:  # noqa
                back = None
                admit = False
                site = self._reparse_site(new_root)
                fs.append(Finding("C09", {"clause": "reparse", "kind": "rejected", "site": site},
                                  f"{rule_name} on {s.printed!r} gave {trees.show(new_root)} which prints as "
                                  f"{text!r}; the parser rejects it ({type(e).__name__})"))
            if back is not None:
                c2 = self._equiv(new_root, back)
                st["reparse." + c2.verdict] += 1
                if c2.verdict == "diff":
                    admit = False
                    site = self._reparse_site(new_root)
                    fs.append(Finding("C09", {"clause": "reparse", "kind": "differs", "site": site},
                                      f"{rule_name} on {s.printed!r} gave {trees.show(new_root)} which prints as "
                                      f"{text!r} and re-parses to {trees.show(back)}: {c2.witness}"))
        if admit and len(self.states) < MAX_LIVE:
            ns = self._admit(new_root, si, s.depth + 1)
            fs.extend(self.check_isolation(rule_name))
            self.res.sigs["transitions"].add(
                hashlib.sha1(f"{desc(s.root, 2)}|{rule_name}|{local}".encode()).hexdigest()[:16])
            st["depth.%02d" % min(ns.depth, 24)] += 1
            if ns.depth >= 2:
                st["probe.state_beyond_one_step"] += 1
        self.res.events.append(f"expand {si} {rule_name} {ni} -> {struct_hash(new_root)} f={len(fs)}")
        return fs

    def round_trip(self, root, how):
        """C04 on one tree: its text is accepted by a fresh parser, the re-parsed
        tree is equivalent and has the same variables.  Returns findings (C04)."""
        from mathy_core.parser import ExpressionParser
        st = self.res.stats
        st["c04.trees"] += 1
        try:
            text = str(root)
        except Exception as e:  # noqa
            return [Finding("C04", {"clause": "print", "exc": type(e).__name__},
                            f"str() of {trees.show(root)} ({how}) raised {type(e).__name__}")]
        try:
            back = core.bounded_parse(text)
        except Exception as e:  # noqa
            return [Finding("C04", {"clause": "reparse", "kind": "rejected", "site": self._reparse_site(root)},
                            f"{trees.show(root)} ({how}) prints as {text!r}; the parser rejects it "
                            f"({type(e).__name__})")]
        out = []
        # printing and re-parsing licenses no rounding: integer text is exact and float
        # text is the shortest form that reads back to the same double
        c = self._equiv(root, back, exact=True)
        st["c04." + c.verdict] += 1
        if c.verdict == "diff":
            out.append(Finding("C04", {"clause": "reparse", "kind": "differs", "site": self._reparse_site(root)},
                               f"{trees.show(root)} ({how}) prints as {text!r} and re-parses to "
                               f"{trees.show(back)}: {c.witness}"))
        va, vb = trees.variables_of(root), trees.variables_of(back)
        if va != vb:
            out.append(Finding("C04", {"clause": "variables", "site": self._reparse_site(root)},
                               f"{trees.show(root)} ({how}) prints as {text!r}; variables {va} became {vb}"))
        return out

    def _inplace(self, si, s, rule_name, ni):
        """C04 only: the rule is applied to the live state itself rather than to a clone
        (legitimate API use -- the library's own tests do it); the state is replaced by
        the result.  C09 speaks of steps on cloned copies, so its runs never do this."""
        st = self.res.stats
        fs = []
        if rule_name not in self.rules or (rule_name, ni) not in s.actions:
            self.res.events.append(f"inplace {si} {rule_name} {ni} skip")
            return fs
        rule = self.rules[rule_name]
        order = []
        stack, cur = [], s.root
        while stack or cur is not None:
            while cur is not None:
                stack.append(cur)
                cur = cur.left
            cur = stack.pop()
            order.append(cur)
            cur = cur.right
        if ni >= len(order):
            return fs
        node = order[ni]
        st["steps_in_place"] += 1
        st["fault.step_applied_in_place"] += 1
        new_root = None
        try:
            with core.op_budget(STEP_BUDGET_S):
                if rule.can_apply_to(node):
                    result = rule.apply_to(node).result
                    new_root = result.get_root() if result is not None else None
        except core.OpTimeout:
            st["fault.step_aborted"] += 1
        except Exception:  # noqa
            st["fault.step_aborted"] += 1
        if new_root is None or trees.size(new_root) > MAX_NODES:
            # the state may be half rewritten: it leaves the pool
            self.states.pop(si)
            self.res.events.append(f"inplace {si} {rule_name} {ni} dropped")
            return fs + self.check_isolation(rule_name)
        fs.extend(self.round_trip(new_root, f"{rule_name} applied in place to {s.printed!r}"))
        s.root = new_root
        s.printed = self._safe_str(new_root)
        s.actions = self._actions(new_root)
        s.shadow = snapshot(new_root)
        s.ids = {t[0] for t in s.shadow}
        s.hash = struct_hash(new_root)
        s.depth += 1
        self.res.sigs["states"].add(s.hash)
        if s.depth >= 2:
            self.res.sigs["deep_states"].add(s.hash)
        fs.extend(self.check_isolation(rule_name))
        self.res.events.append(f"inplace {si} {rule_name} {ni} -> {s.hash} f={len(fs)}")
        return fs

    def _reparse_site(self, root):
        """depth-1 shape of the smallest subtree that does not round-trip."""
        from mathy_core.parser import ExpressionParser
        subs = sorted(trees.nodes_preorder(root), key=lambda n: trees.size(n))
        for sub in subs:
            try:
                text = str(sub)
                back = core.bounded_parse(text)
            except Exception:
                return desc(sub, 2)
            # compare detached semantics: the subtree against its re-parse
            c = self._equiv(sub, back) if not trees.is_equation(sub) or sub is root else None
            if c is not None and c.verdict == "diff":
                return desc(sub, 2)
        return "context:" + desc(root, 1)

    def finish(self):
        fs = self.pending
        self.pending = []
        return fs


# --------------------------------------------------------------------------


RW_GEN = {"depth": 3, "floats": True, "fact": False, "sgn": False, "brackets": False, "endash": False,
          "upper": False, "space": 1, "eq": False, "vars": "xyz", "max_len": 200}


# swarm: for some runs all literals and exponents come from a tiny pool, so that equal
# coefficients / equal exponents / repeated constants (the coincidences many rule bugs
# need) are common instead of vanishingly rare
_POOL = {"nums": None, "exps": None, "long_literals": False}


def rw_number(rng):
    if _POOL["nums"]:
        return rng.choice(_POOL["nums"])
    r = rng.random()
    if r < 0.6:
        return str(rng.randint(0, 12))
    if r < 0.75:
        return rng.choice(["0.5", "1.5", "2.5", "0.25"])
    if r < 0.9:
        return str(rng.randint(13, 60))
    if r < 0.93:
        return rng.choice(["0.00002", "0.0001", "0.000001", "0.1"])
    if r < 0.94 and _POOL.get("long_literals"):
        # constants whose text is longer than 64 characters (C04 only: its comparison is exact;
        # under C09's tolerance rule magnitudes of 1e+-70 only produce under/overflow noise)
        return rng.choice(["1" + "0" * 69 + "7", "0." + "0" * 70 + "7", "123456789" * 8])
    return rng.choice(["0", "1", "100", "144"])


def rw_exp(rng):
    if _POOL["exps"]:
        return rng.choice(_POOL["exps"])
    return str(rng.randint(0, 4))


def rw_term(rng, vs):
    r = rng.random()
    v = rng.choice(vs)
    if r < 0.04:
        # a power of a power, and products of bare constants (folding chains)
        if rng.random() < 0.5:
            return f"({v}^{rng.choice(['2', '2', '4', '3', '0'])})^{rng.choice(['0.5', '(1 / 2)', '2', '1.5', '-1', '0.25'])}"
        return " * ".join(rw_number(rng) for _ in range(rng.choice([2, 3, 4])))
    if r < 0.2:
        return rw_number(rng)
    if r < 0.35:
        return v
    if r < 0.6:
        return rw_number(rng) + v
    if r < 0.8:
        return rw_number(rng) + v + "^" + rw_exp(rng)
    if r < 0.9:
        return v + "^" + rw_exp(rng)
    return "-" + rng.choice([v, rw_number(rng), rw_number(rng) + v])


def rw_expr(rng, d, vs, int_only=False):
    if d <= 0:
        return rw_term(rng, vs)
    r = rng.random()
    a = rw_expr(rng, d - 1, vs, int_only)
    b = rw_expr(rng, d - 1, vs, int_only)
    if rng.random() < 0.07:
        b = a          # twins: identical operands
    if r < 0.3:
        return f"{a} + {b}"
    if r < 0.45:
        return f"{a} - {b}"
    if r < 0.5:
        return f"{a} - ({b})"
    if r < 0.62:
        return f"({a}) * ({b})"
    if r < 0.7:
        return f"{rw_term(rng, vs)} * {rw_term(rng, vs)}"
    if r < 0.76 and not int_only:
        return f"({a}) / ({b})"
    if r < 0.8 and not int_only:
        return f"{rw_term(rng, vs)} / {rw_term(rng, vs)}"
    if r < 0.83:
        return f"({a})^{rng.randint(0, 3)}"
    if r < 0.85 and not int_only:
        # fractional exponents: (x^2)^0.5 is |x|, not x
        return f"({a})^{rng.choice(['0.5', '(1 / 2)', '1.5', '0.25', '(1 / 3)'])}"
    if r < 0.88 and not int_only:
        return f"({a})^-{rng.randint(1, 2)}"
    if r < 0.93:
        return f"-({a})"
    if r < 0.97:
        return f"{rw_number(rng)}({a})"
    return f"({a})({b})"


def kind_tree_text(rng, d, vs):
    """Fully parenthesised text of a random tree in which every node kind is
    equally likely at every position, so that every parent-kind x child-kind x
    side combination the parser can produce is reached as a start state."""
    if d <= 0 or rng.random() < 0.15:
        r = rng.random()
        if r < 0.35:
            return rng.choice(vs)
        if r < 0.6:
            return rw_number(rng)
        if r < 0.75:
            return "-" + rw_number(rng)
        if r < 0.85:
            return rw_number(rng) + rng.choice(vs)
        if r < 0.93:
            return str(rng.randint(0, 5)) + "!"
        return rw_number(rng) + rng.choice(vs) + "^" + str(rng.randint(0, 3))
    k = rng.choice(["add", "sub", "mul", "div", "pow", "neg", "neg", "sgn", "pow"])
    a = kind_tree_text(rng, d - 1, vs)
    twin = rng.random() < 0.08
    if k == "neg":
        return f"-({a})"
    if k == "sgn":
        return f"sgn({a})"
    b = a if twin else kind_tree_text(rng, d - 1, vs)
    op = {"add": "+", "sub": "-", "mul": "*", "div": "/"}.get(k)
    if k == "pow":
        if rng.random() < 0.5:
            b = rng.choice([str(rng.randint(0, 3)), "-" + str(rng.randint(1, 2)), b, "0.5", "1 / 2", "1.5"])
        return f"({a})^({b})"
    if twin and rng.random() < 0.5:
        return f"{a} {op} ({b})"       # unparenthesised left twin: (x + 1) - (x + 1) as x + 1 - (x + 1)
    return f"({a}) {op} ({b})"


# Arrangements the rules look for (read off their get_type functions and docs), with
# holes X, Y, Z for arbitrary sub-expressions, T for natural-order terms, c for constants.
RULE_SHAPES = [
    "c * (c * X)", "(c * X) * c", "c + (c + X)", "c * ((c * X) * Y)", "c + ((c + X) + Y)",
    "(cV * c)", "(c * X) * (c * Y)", "(c * X) * ((c * Y) * Z)", "(X * (c * Y)) * (c * Z)", "-(c + c)", "-(c * c)",
    "c / c", "c - c", "c ^ c",
    "T + T", "(X + T) + T", "T + (T + X)", "(X + T) + (T + Y)", "T + ((T + X) + Y)", "(X + (Y + T)) + T",
    "T * T", "T * (T * X)", "(X * T) * T", "V * V", "V * (V * X)",
    "X * (Y + Z)", "(Y + Z) * X", "T * (T + X)", "(X + Y) * (Z + T)",
    "X / Y", "X / -Y", "X / (Y / Z)", "(X / Y) / Z", "(X / Y) * Z", "X * (Y / Z)",
    "X - T", "X - -V", "X - -c", "X + -c", "X + -cV", "X + -cV^c", "X - (Y - Z)", "X - (c - Y)", "X - c^Y",
    "(X + Y) + Z", "X + (Y + Z)", "(X * Y) * Z", "X * (Y * Z)", "X + Y", "X * Y",
    "(c * cV) * cV", "(X * cV^c) * cV^c", "(c * cV^c) * cV", "(X - (Y + T)) + T", "T + ((X - T) + Y)", "(X - T) + T",
    "T + (X - T)", "(X + T) - T", "T - (T + X)", "(c * V) * (c * V)", "c * (V * (c * V))", "-(T + T)", "-(T) + T",
    "X + T = Y", "T + X = Y", "X = Y + T", "cV = X", "X = cV", "c * X = Y", "(X + T) * Y = Z", "-(X + T) = Y",
    "(X + T) / Y = Z", "X - (T + Y) = Z", "(X + T)^c = Y", "X + (Y + T) = Z",
]
PRINT_CONTEXTS = ["V^-(S)", "-(S)", "(S)^c", "V - (S)", "V / (S)", "(S) / V", "(S) * V", "V * (S)", "-(S) * V",
                  "V^(S)", "-(S)^c", "c(S)^c", "V^-(c(S)^c)", "V - -(S)", "(S) - (S)", "-(-(S))", "(S)!" ]


def neighbour_shape(rng, shape, p=0.35):
    """The arrangement itself, or (35 %) a neighbour in which one binary operator is
    replaced by its inverse (+ <-> -, * <-> /): the arrangements a rule must tell apart
    from the one it handles -- refuse, or handle with the sign kept."""
    if rng.random() >= p:
        return shape
    swap = {" + ": " - ", " - ": " + ", " * ": " / ", " / ": " * "}
    sites = [i for i in range(len(shape) - 2) if shape[i:i + 3] in swap]
    if not sites:
        return shape
    i = rng.choice(sites)
    return shape[:i] + swap[shape[i:i + 3]] + shape[i + 3:]


def fill_shape(rng, shape, vs, like=None):
    out = []
    i = 0
    while i < len(shape):
        ch = shape[i]
        if ch in "XYZS" and (i + 1 == len(shape) or not shape[i + 1].isalpha()):
            sub = kind_tree_text(rng, rng.choice([0, 1, 1, 2]), vs)
            out.append(sub if ch == "S" else "(" + sub + ")")
        elif ch == "T":
            if like is not None:
                out.append(rng.choice([rw_number(rng) + like, rw_number(rng) + like, like, "-" + like,
                                       rw_number(rng) + like + "^" + rw_exp(rng), like + "^" + rw_exp(rng)]))
            else:
                out.append(rng.choice([rw_number(rng) + rng.choice(vs) + "^" + rw_exp(rng), rw_number(rng) + rng.choice(vs),
                                       rng.choice(vs), rng.choice(vs) + "^" + rw_exp(rng), "-" + rng.choice(vs),
                                       "-" + rng.choice(vs) + "^" + rw_exp(rng), rw_number(rng)]))
        elif ch == "V":
            out.append(rng.choice(vs))
        elif ch == "c":
            out.append(rw_number(rng))
        else:
            out.append(ch)
        i += 1
    return "".join(out)


def planted_equation(rng, vs):
    """L = R with a solution planted by construction (exact arithmetic)."""
    from mathy_core.parser import ExpressionParser
    env = {v: Fraction(rng.choice([1, 2, 3, -1, -2, 4, 5, -3])) for v in vs}
    for _ in range(6):
        lt = rw_expr(rng, rng.randint(0, 2), vs, int_only=True)
        rt = rw_expr(rng, rng.randint(0, 2), vs, int_only=True)
        try:
            L = core.bounded_parse(lt)
            R = core.bounded_parse(rt)
            lv, _ = trees.ev(L, env)
            rv, _ = trees.ev(R, env)
        except Exception:
            continue
        k = lv - rv
        if k.denominator not in (1, 2, 4) or abs(k) > 10 ** 6:
            continue
        ks = str(int(k)) if k.denominator == 1 else repr(float(k))
        if k == 0:
            text = f"{lt} = {rt}"
        elif k > 0:
            text = f"{lt} = {rt} + {ks}" if rng.random() < 0.7 else f"{lt} - {ks} = {rt}"
        else:
            text = f"{lt} = {rt} - {ks[1:]}" if rng.random() < 0.7 else f"{lt} + {ks[1:]} = {rt}"
        return text, {v: str(env[v]) for v in vs}
    x0 = rng.randint(-5, 5)
    a, b = rng.randint(1, 9), rng.randint(0, 12)
    return f"{a}x + {b} = {a * x0 + b}", {"x": str(x0)}


PROBLEM_GENS = [
    ("gen_binomial_times_binomial", {}),
    ("gen_binomial_times_monomial", {}),
    ("gen_simplify_multiple_terms", {"num_terms": 3}),
    ("gen_simplify_multiple_terms", {"num_terms": 4, "op": "+"}),
    ("gen_simplify_multiple_terms", {"num_terms": 5}),
    ("gen_combine_terms_in_place", {"min_terms": 3, "max_terms": 6}),
    ("gen_commute_haystack", {"min_terms": 3, "max_terms": 5}),
    ("gen_move_around_blockers_one", {"number_blockers": 1}),
    ("gen_move_around_blockers_two", {"number_blockers": 1}),
]


class RewriteSim:
    name = "rewrite"
    distinct_measure = "deep_states"

    def plan(self, prop, tier):
        if prop == "C04":
            return [("episodes", 5000 if tier == "quick" else 150000)]
        return [("episodes", 6000 if tier == "quick" else 200000)]

    def batch_size(self, stratum):
        return 50

    def new_world(self, cfg, res):
        return World(cfg, res)

    def draw_config(self, rng, prop, tier, stratum, idx):
        cfg = {"prop": prop, "stratum": stratum, "eq_seed": rng.randrange(2 ** 32)}
        _POOL["nums"] = _POOL["exps"] = None
        _POOL["long_literals"] = (prop == "C04")
        if rng.random() < 0.4:
            _POOL["nums"] = [rng.choice(["0.5", "0.25", "1.5", "2.5", "0.1", "0.75", "0.001", "0.000001"])
                             if rng.random() < 0.4
                             else rw_number(rng) for _ in range(rng.choice([1, 2, 3]))]
            _POOL["exps"] = [str(rng.randint(0, 4)) for _ in range(rng.choice([1, 2]))]
            cfg["literal_pool"] = [_POOL["nums"], _POOL["exps"]]
        planted = []
        if prop == "C04":
            mix = [("kind-pairs", 22), ("parser-grammar", 18), ("rule-shapes", 14), ("print-contexts", 12),
                   ("problems", 8), ("rule-tests", 6), ("planted-equation", 8), ("grammar", 12)]
        else:
            mix = [("rule-shapes", 14), ("kind-pairs", 10), ("problems", 16), ("rule-tests", 12),
                   ("planted-equation", 22), ("grammar", 26)]
        source = rng.choices([m[0] for m in mix], weights=[m[1] for m in mix])[0]
        cfg["source"] = source
        if source == "kind-pairs":
            text = kind_tree_text(rng, rng.choice([1, 2, 2, 3]), rng.choice(["xyz", "ab", "x"]))
            if rng.random() < 0.25:
                text = text + " = " + kind_tree_text(rng, rng.choice([0, 1, 2]), "xyz")
        elif source == "parser-grammar":
            # trees "obtainable as parse(s) for any string s": the broad documented grammar
            g = {"depth": rng.choice([1, 2, 3, 4]), "floats": True, "fact": rng.random() < 0.6,
                 "sgn": rng.random() < 0.5, "brackets": rng.random() < 0.3, "endash": rng.random() < 0.2,
                 "upper": False, "space": rng.choice([0, 1, 2]), "eq": rng.random() < 0.5,
                 "vars": rng.choice(["xyz", "abc", "pqrs", "xy"]), "max_len": 200}
            text = gen.valid_text(rng, g) if rng.random() < 0.85 else rng.choice(gen.CORPUS)
        elif source == "print-contexts":
            text = fill_shape(rng, rng.choice(PRINT_CONTEXTS), rng.choice(["xyz", "ab", "x", "fgq"]))
        elif source == "rule-shapes":
            vs = rng.choice(["xyz", "ab", "x", "fgq"])
            if rng.random() < 0.4:
                # like-term arrangements and their sign-flipped neighbours, the terms sharing one variable
                two_t = [sh for sh in RULE_SHAPES if sh.count("T") >= 2]
                text = fill_shape(rng, neighbour_shape(rng, rng.choice(two_t), p=0.7), vs, like=rng.choice(vs))
            else:
                text = fill_shape(rng, neighbour_shape(rng, rng.choice(RULE_SHAPES)), vs)
            if rng.random() < 0.3 and "=" not in text:
                text = fill_shape(rng, rng.choice(["(S) + V", "V * (S)", "(S) - c", "-(S)", "(S) / c"]).replace("S", "@"),
                                  vs).replace("@", text)
        elif source == "problems":
            from mathy_core import problems
            name, kw = rng.choice(PROBLEM_GENS)
            _random.seed(rng.randrange(2 ** 32))
            problems.use_pretty_numbers(rng.random() < 0.7)
            try:
                text = getattr(problems, name)(**kw)[0]
            except Exception:
                text = "4x + 2x"
            problems.use_pretty_numbers(True)
            cfg["source"] = "problems." + name
        elif source == "rule-tests":
            inputs = rule_test_inputs()
            if inputs:
                text, ctx = rng.choice(inputs)
                if ctx and "=" in text:
                    planted = [ctx]
            else:
                text = "4x + 2x"
        elif source == "planted-equation":
            vs = rng.choice(["x", "xy", "xyz", "ab", "tpq"])
            text, env = planted_equation(rng, vs)
            planted = [env]
        else:
            vs = rng.choice(["x", "xy", "xyz", "ab", "mnk"])
            text = rw_expr(rng, rng.randint(1, 3), vs)
        _POOL["nums"] = _POOL["exps"] = None
        cfg["start"] = text
        cfg["planted"] = planted
        # swarm: rule subset and weights
        k = rng.choice([3, 5, 8, 11, 11])
        chosen = rng.sample(RULES, k)
        if "=" in text and "BM" not in chosen and rng.random() < 0.7:
            chosen.append("BM")
        cfg["rules"] = sorted(chosen)
        # the swaps apply almost everywhere; give the rarely applicable rules more weight
        cfg["weights"] = {r: rng.choice([1, 1, 2, 4]) if r in ("CS", "CSnp", "AG") else rng.choice([2, 4, 8])
                          for r in cfg["rules"]}
        cfg["policy"] = rng.choice(["uniform", "newest", "oldest", "round-robin", "deepest", "rare-rule"])
        cfg["n_ops"] = rng.choice([4, 8, 12, 24, 24, 40])
        cfg["query_p"] = rng.choice([0.0, 0.1, 0.3])
        cfg["inplace_p"] = rng.choice([0.0, 0.2, 0.5]) if prop == "C04" else 0.0
        return cfg

    def generate(self, rng, cfg, world):
        rr = 0
        for step in range(cfg["n_ops"]):
            if not world.states:
                return
            n = len(world.states)
            if rng.random() < cfg["query_p"]:
                yield [rng.choice(["requery", "reprint", "termtext"]), rng.randrange(n)]
                continue
            pol = cfg["policy"]
            order = list(range(n))
            if pol == "uniform":
                rng.shuffle(order)
            elif pol == "newest":
                order.reverse()
            elif pol == "round-robin":
                order = order[rr % n:] + order[:rr % n]
                rr += 1
            elif pol == "deepest":
                order.sort(key=lambda i: -world.states[i].depth)
            if pol != "uniform" and rng.random() < 0.3:
                rng.shuffle(order)
            op = None
            for si in order:
                acts = world.states[si].actions
                if not acts:
                    continue
                by_rule = {}
                for name, ni in acts:
                    by_rule.setdefault(name, []).append(ni)
                names = sorted(by_rule)
                w = [cfg["weights"].get(nm, 1) for nm in names]
                if pol == "rare-rule":
                    # novelty: prefer the rule applied least often so far in this episode
                    used = world.res.stats
                    least = min(used.get("steps." + nm, 0) for nm in names)
                    w = [8 if used.get("steps." + nm, 0) == least else 1 for nm in names]
                name = rng.choices(names, weights=w)[0]
                ni = rng.choice(by_rule[name])
                op = ["expand", si, name, ni]
                if cfg.get("prop") == "C04" and rng.random() < cfg.get("inplace_p", 0.0):
                    op[0] = "inplace"
                break
            if op is None:
                return
            yield op

    def shrink_ops(self, cfg, ops):
        return []

    def rule_text(self, prop):
        if prop == "C04":
            return ("Same seeded search-agent episodes as C09 (start text -> parse -> sequences of real rewrites "
                    "on cloned copies), with start texts biased to the broad documented grammar (functions, "
                    "factorials, brackets, implicit products, equations). Every tree the episode touches -- the "
                    "parsed start and every rewrite result, admitted or not -- is printed with str(), parsed by a "
                    "fresh parser and compared: accepted, exactly-rational-equivalent at sampled points (planted "
                    "solutions and affine roots for equations), same variable set. distinct_nontrivial = distinct "
                    "structural hashes of trees reached by at least two rewrites.")
        return ("Seeded search-agent episodes: a start expression (repo problem generators under the run seed, "
                "inputs of rules/*.test.json, own grammar incl. equations with a planted solution), then <= 24 "
                "operations on a pool of <= 40 live states: EXPAND(state, rule config, node) through the real "
                "rule on a clone_from_root copy, REQUERY and REPRINT of old states; scheduler policy, rule subset "
                "and weights drawn per run. After every step: isolation of all live states against shadows, link "
                "audit, print/re-parse by a fresh parser, exact-rational equivalence with the predecessor. "
                "distinct_nontrivial = distinct structural hashes of states reached by at least two rewrites.")

    def probe_names(self, prop):
        return ["state_beyond_one_step", "shape_nested_negation", "shape_power_of_product_or_negation",
                "shape_power_of_power", "shape_left_nested_product", "shape_numpy_constant",
                "shape_negated_constant"]

    def components(self, prop):
        return {
            "real": ["all nine rules (11 configurations) via find_nodes/can_apply_to/apply_to",
                     "MathExpression.clone_from_root", "ExpressionParser", "expression __str__",
                     "mathy_core.problems generators (start expressions)", "numpy (constant folding)"],
            "simulated": ["search agent: pool of live states, seeded scheduler, rule mix"],
            "reference_models": ["shadow snapshots (identity/structure/payload) of every live state",
                                 "own link audit", "own exact Fraction evaluator with forward-error scale",
                                 "fresh parser for print/re-parse"],
            "stubbed": [],
        }

    def assumptions(self, prop):
        return ["equivalence is decided at 8 sampled rational points per variable set plus, for equations, planted "
                "solutions and exact affine roots; differences <= 1e-9 x scale are rounding, > 1e-6 x scale are "
                "violations, in between counted as indeterminate",
                "trees are capped at 90 nodes and exponents at |e| <= 16 for exact evaluation",
                "a step whose apply_to raises is an aborted step (C06's subject), not a C09 violation"]


SIM = RewriteSim()
